//! C16 — after a liquidation, no second position action in the same block.
use super::histprop::HistProp;
use crate::hist::{Act, Effect, Interp, Monitor, Obs, Step};
use crate::ops::{CfgProfile, Weights};
use crate::run::{Outcome, Violation};
use crate::world::World;
use serde_json::json;
use std::collections::BTreeSet;

#[derive(Default)]
pub struct Mon {
    height: u64,
    /// per vAMM: traders with a successful open / partial close in this block whose position still exists
    acted: Vec<BTreeSet<usize>>,
    /// per vAMM: traders liquidated in this block
    liquidated: Vec<BTreeSet<usize>>,
    liq_this_block: Vec<bool>,
    liq_prev_block: Vec<bool>,
    twin_ok: Option<bool>,
    role: &'static str,
    restricted_attempts: u64,
    bystander_attempts: u64,
}

impl Mon {
    fn roll(&mut self, h: u64, nv: usize) {
        if self.acted.len() != nv {
            self.acted = vec![BTreeSet::new(); nv];
            self.liquidated = vec![BTreeSet::new(); nv];
            self.liq_this_block = vec![false; nv];
            self.liq_prev_block = vec![false; nv];
            self.height = h;
        }
        if h != self.height {
            let consecutive = h == self.height + 1;
            for v in 0..nv {
                self.liq_prev_block[v] = consecutive && self.liq_this_block[v];
                self.liq_this_block[v] = false;
                self.acted[v].clear();
                self.liquidated[v].clear();
            }
            self.height = h;
        }
    }
}

impl Monitor for Mon {
    fn before(&mut self, it: &mut Interp, act: &Act, pre: &Obs, out: &mut Outcome) -> Option<Violation> {
        self.roll(pre.height, it.w.vamms.len());
        self.twin_ok = None;
        self.role = "";
        if let Act::Open { t, v, .. } | Act::Close { t, v, .. } = act {
            let relevant = self.liq_this_block[*v] || self.liq_prev_block[*v];
            if !relevant {
                return None;
            }
            if self.liquidated[*v].contains(t) {
                self.role = "liquidated";
                out.count("attempt_by_liquidated_trader_unasserted");
                return None;
            }
            if self.liq_this_block[*v] && self.acted[*v].contains(t) {
                self.role = "restricted";
                return None;
            }
            self.role = if self.liq_this_block[*v] { "bystander" } else { "next_block" };
            if !pre.v[*v].cfg.fluctuation_limit_ratio.is_zero() {
                // on a vAMM with a per-block band the height also selects the band's reference price: the twin would not isolate the rule
                out.count("unrestricted_attempt_on_band_vamm_unasserted");
                self.role = "";
                return None;
            }
            // what-if twin: same pre-state, same time, one block higher
            let snap = it.w.snapshot();
            let b = it.w.app.block_info();
            it.w.set_time(b.height + 1, b.time.seconds());
            let r = it.exec_act(act);
            self.twin_ok = Some(r.ok);
            it.w.restore(&snap);
        }
        None
    }
    fn after(&mut self, w: &World, s: &Step, out: &mut Outcome) -> Option<Violation> {
        self.roll(s.pre.height, w.vamms.len());
        match s.act {
            Act::Open { t, v, .. } | Act::Close { t, v, .. } => {
                let mut viol = None;
                // the rule speaks of blocks in which a liquidation happened on the vAMM: in any other block the engine's own
                // refusal "Only one action allowed" shows the rule biting where it has no business (the message is only used to
                // recognise that it was this rule that refused; a refusal for any other reason is not judged)
                if !s.res.ok && !self.liq_this_block[*v] && s.res.err.contains("Only one action allowed") {
                    out.count("restriction_refusals_without_liquidation");
                    return Some(
                        Violation::new(
                            "unrestricted_trader_blocked",
                            format!("{} by {} is refused with 'Only one action allowed' although no liquidation happened on vamm {} in this block", s.act.name(), w.traders[*t], v),
                        )
                        .with("act", s.act.name())
                        .with("role", "no_liquidation_in_block"),
                    );
                }
                match self.role {
                    "restricted" => {
                        self.restricted_attempts += 1;
                        out.count("restricted_attempts");
                        if s.res.ok {
                            viol = Some(
                                Violation::new(
                                    "restricted_trader_acted",
                                    format!("{} by {} succeeded although a liquidation happened on vamm {} in this block and the trader's position was already updated in it", s.act.name(), w.traders[*t], v),
                                )
                                .with("act", s.act.name()),
                            );
                        } else if s.pre != s.post {
                            viol = Some(Violation::new("restricted_attempt_changed_state", format!("refused {} changed observable state", s.act.name())));
                        }
                    }
                    "bystander" | "next_block" => {
                        if self.role == "bystander" {
                            self.bystander_attempts += 1;
                        }
                        out.count(&format!("{}_attempts", self.role));
                        if let Some(twin) = self.twin_ok {
                            if twin && !s.res.ok {
                                viol = Some(
                                    Violation::new(
                                        "unrestricted_trader_blocked",
                                        format!(
                                            "{} by {} ({}) fails ({}) in this block but the same call on the same state one block later succeeds: the trader's position was not touched in this block",
                                            s.act.name(),
                                            w.traders[*t],
                                            self.role,
                                            s.res.err
                                        ),
                                    )
                                    .with("act", s.act.name())
                                    .with("role", self.role),
                                );
                            }
                        }
                    }
                    _ => {}
                }
                // bookkeeping
                if s.res.ok {
                    let still = s.post.pos[*v][*t].is_some();
                    // "updated" = the stored position record changed (a trade too small to move the size still updates it)
                    let updated = s.pre.pos[*v][*t] != s.post.pos[*v][*t]
                        || matches!(s.effect, Effect::Opened | Effect::Increased | Effect::Reduced | Effect::Reversed | Effect::PartialClosed);
                    if still && updated {
                        self.acted[*v].insert(*t);
                    }
                    if !still {
                        self.acted[*v].remove(t);
                    }
                }
                return viol;
            }
            Act::Liquidate { v, target, .. } if s.res.ok => {
                self.liq_this_block[*v] = true;
                if s.post.pos[*v][*target].is_some() {
                    // a partial liquidation: the position still exists and was touched in this block (by the liquidation, and
                    // perhaps by its owner before): its owner is a trader "whose position was already updated in that block"
                    if s.pre.pos[*v][*target] != s.post.pos[*v][*target] {
                        self.acted[*v].insert(*target);
                        out.count("partially_liquidated_position_counts_as_updated");
                    }
                } else {
                    // the position is gone: the statement does not say whether a fresh one may be opened in the same block
                    self.liquidated[*v].insert(*target);
                    self.acted[*v].remove(target);
                }
                out.count("liquidations");
            }
            _ => {}
        }
        None
    }
    fn end(&mut self, _w: &World, out: &mut Outcome) {
        out.nontrivial = self.restricted_attempts >= 1 && self.bystander_attempts >= 1;
        out.summary = Some(json!({"restricted_attempts": self.restricted_attempts, "bystander_attempts": self.bystander_attempts}));
    }
}

pub fn prop() -> HistProp {
    let mut p = CfgProfile::general();
    // 4 in 9 vAMMs have a per-block band (closes can turn partial there); the bystander clause is asserted on the others
    p.fluct = true;
    let mut w = Weights::trading();
    w.open = 34;
    w.close = 14;
    w.liq_weakest = 16;
    w.squeeze = 12;
    w.block = 5;
    w.funding = 2;
    w.oracle = 3;
    w.deposit = 2;
    w.withdraw = 2;
    // the pauser edits the whitelist in between (it exempts from caps, not from this rule)
    w.whitelist = 3;
    // the pauser role changes hands: to a trading account and back (holding a role is not being whitelisted)
    w.handover = 2;
    // trading is halted, a liquidation happens meanwhile, trading resumes: all within one block
    w.paused_liq = 3;
    HistProp {
        id: "C16",
        level: "exploration",
        profile: p,
        weights: w,
        min_ops: 8,
        max_ops: (45, 100),
        cases: (24_000, 400_000),
        make: || Box::new(Mon::default()),
        rule: "histories with many trades and liquidations (full and partial) per block on 1-2 vAMMs (4 in 9 with a per-block band, so that closes can turn partial), few block boundaries. The harness keeps, per (vAMM, block), the set A of traders with a successful OpenPosition / partial ClosePosition in that block whose position still exists, the traders liquidated in it and whether a liquidation succeeded. Open/Close by a member of A after a liquidation in the same block must fail and leave every observable unchanged. For bystanders (not in A, not liquidated in the block) in a block with a liquidation, and for everybody in the block after one, on vAMMs without a band the same call is also executed on a what-if twin of the same pre-state one block height later at the same block time: if it succeeds there it must succeed here. Traders liquidated in the block are not asserted either way. Non-trivial: a history with >= 1 restricted attempt and >= 1 bystander attempt in a liquidation block. Distinct by digest of (cfg, ops).",
        assumptions: &["with no fluctuation limit configured nothing but the restriction rule depends on the block height, so a differing outcome of the twin is attributable to it; on vAMMs with a band the bystander clause is not asserted (counted)"],
        eval_counter: None,
    }
}
