//! C13 — outcomes do not depend on whether collateral is native or cw20 (differential, lock-step twins).
use crate::hist::{act_json, observe, Act, Interp, Obs};
use crate::ops::{hist_strategy, CfgProfile, HistCase, Weights};
use crate::run::{Ctx, Outcome, Property, Tier, Violation};
use crate::world::{World, N_TRADERS};
use margined_perp::margined_engine as eng;
use margined_perp::margined_engine::Position;
use proptest::strategy::BoxedStrategy;
use serde_json::json;

pub struct C13;

fn pos_eq(a: &Option<Position>, b: &Option<Position>) -> bool {
    match (a, b) {
        (None, None) => true,
        (Some(a), Some(b)) => {
            a.direction == b.direction
                && a.size == b.size
                && a.margin == b.margin
                && a.notional == b.notional
                && a.last_updated_premium_fraction == b.last_updated_premium_fraction
                && a.block_number == b.block_number
                && a.trader == b.trader
        }
        _ => false,
    }
}

fn delta(pre: &Obs, post: &Obs, i: usize) -> i128 {
    post.bal[i] as i128 - pre.bal[i] as i128
}

impl Property for C13 {
    type Case = HistCase;
    fn id(&self) -> &'static str {
        "C13"
    }
    fn strategy(&self, tier: Tier) -> BoxedStrategy<HistCase> {
        let mut p = CfgProfile::general();
        p.native = Some(false);
        p.six_decimals = true;
        // 4 in 9 vAMMs have a per-block band: closes that would leave it turn partial (when the engine's partial ratio is below 100%)
        p.fluct = true;
        let mut w = Weights::trading();
        w.close = 16;
        w.squeeze = 5;
        w.liq_weakest = 6;
        w.ecfg = 2;
        // a trader withdraws the engine's cw20 allowance (and grants it again): operations that pull nothing must not care
        w.allowance = 3;
        hist_strategy(&p, &w, 4, tier.pick(35, 80))
    }
    fn cases(&self, tier: Tier) -> u32 {
        tier.pick(8_000, 250_000)
    }
    fn rule(&self) -> String {
        "twin deployments with identical generated parameters (6 decimals, same reserves, ratios, fees, balances; unlimited cw20 allowances for every trader) and the same generated history applied in lock-step. Each op is resolved once against the cw20 world; the cw20 world runs first; the native call attaches exactly the amount the cw20 deployment pulled from the caller in that transaction (sum of TransferFrom{owner = caller} in the transfer log; zero if it pulled nothing or failed). After every op: same success/failure, all positions equal field by field, vAMM State and engine State equal, and equal balance deltas of caller, vault, insurance fund, fee pool and every other known account. Wrong-funds clause: whenever the cw20 twin pulled an amount p > 0 for an OpenPosition, the same native order with p-1 and with p+1 attached is tried on a what-if copy: it must be refused, or move the trader's wallet by exactly what the cw20 twin's wallet moved. Fees-from-the-vault clause: whenever the cw20 twin pulled fees from the caller in a ClosePosition, the same native call is also tried on a what-if copy with nothing attached and must not succeed (otherwise the fees came out of the vault). Non-trivial: a history with non-zero fees that contains a reversal or a successful ClosePosition, or a native call with non-zero attached funds followed by a refund to the caller. Distinct by digest of (cfg, ops).".into()
    }
    fn assumptions(&self) -> Vec<String> {
        vec!["the poor trader has the same small wallet in both worlds (and, like everyone, an unlimited cw20 allowance: a cumulative allowance has no native counterpart); a transfer it cannot afford fails on both sides".into()]
    }
    fn run_case(&self, c: &HistCase, ctx: &Ctx) -> Outcome {
        let mut out = Outcome::default();
        let mut cfg_c = c.cfg.clone();
        cfg_c.native = false;
        cfg_c.decimals = 6;
        // an allowance is used up cumulatively and has no native counterpart: only the wallet limits the poor trader
        cfg_c.poor_unlimited_allowance = true;
        let mut cfg_n = cfg_c.clone();
        cfg_n.native = true;
        let (wc, wn) = match (World::build(&cfg_c), World::build(&cfg_n)) {
            (Ok(a), Ok(b)) => (a, b),
            _ => {
                out.count("world_rejected");
                return out;
            }
        };
        let mut ic = Interp { w: wc };
        let mut inn = Interp { w: wn };
        let mut pre_c = observe(&ic.w);
        let mut pre_n = observe(&inn.w);
        let mut trace = vec![];
        let mut interesting = 0u64;
        let fees_on = c.cfg.vamms.iter().any(|v| v.toll > 0 || v.spread > 0);
        // traders whose cw20 allowance for the engine is currently withdrawn (harness model of the Allowance ops)
        let mut revoked = [false; N_TRADERS];
        for (i, op) in c.ops.iter().enumerate() {
            let act = ic.resolve(op, &pre_c);
            // the twin runner executes exactly one action per op: follow-ups queued by directed ops are dropped
            ic.w.follow.clear();
            if let Act::Skip = act {
                continue;
            }
            let sender = ic.sender_of(&act);
            // would this operation pull collateral from its sender in the cw20 twin? (only asked while the sender's allowance is
            // withdrawn: a pull then fails in the cw20 twin for a reason the native twin cannot have)
            let sender_idx = ic.w.traders.iter().position(|t| *t == sender);
            let may_pull = match &act {
                Act::Open { t, v, buy, margin, lev, .. } => ic.expected_pull(&pre_c, *t, *v, *buy, *margin, *lev) > 0,
                Act::Deposit { amount, .. } => *amount > 0,
                Act::Close { v, .. } => {
                    let vc = &pre_c.v[*v].cfg;
                    !vc.toll_ratio.is_zero() || !vc.spread_ratio.is_zero()
                }
                _ => false,
            };
            let rc = ic.exec_act(&act);
            if let Act::Allowance { t, grant } = &act {
                if rc.ok {
                    revoked[*t] = !*grant;
                }
                out.count("allowance_ops");
                pre_c = observe(&ic.w);
                continue;
            }
            if sender_idx.map(|k| revoked[k]).unwrap_or(false) {
                if may_pull {
                    // incomparable: the cw20 twin cannot pull, the native twin has nothing like an allowance
                    out.count("pull_with_withdrawn_allowance_history_truncated");
                    break;
                }
                out.count("non_pulling_ops_with_withdrawn_allowance");
            }
            let pulled: u128 = if rc.ok { rc.xfers.iter().filter(|x| x.kind == "transfer_from" && x.from == sender).map(|x| x.amount).sum() } else { 0 };
            // the same concrete action on the native twin, attaching what the cw20 twin pulled
            let act_n = match &act {
                Act::Open { t, v, buy, margin, lev, limit, directed, .. } => Act::Open { t: *t, v: *v, buy: *buy, margin: *margin, lev: *lev, limit: *limit, attach: pulled, directed: *directed },
                Act::Deposit { t, v, amount, .. } => Act::Deposit { t: *t, v: *v, amount: *amount, attach: if rc.ok { pulled } else { *amount } },
                // addresses inside an engine config update name the cw20 twin's contracts: the native twin gets its own
                // contracts of the same rank (contract addresses differ between the twins)
                Act::EngineAdmin { sender, msg: eng::ExecuteMsg::UpdateConfig { owner, insurance_fund, fee_pool, initial_margin_ratio, maintenance_margin_ratio, partial_liquidation_ratio, liquidation_fee }, .. }
                    if insurance_fund.is_some() || fee_pool.is_some() =>
                {
                    let pool_n = fee_pool.as_ref().map(|p| {
                        let k = ic.w.pools.iter().position(|a| a.as_str() == p.as_str()).unwrap_or(0);
                        inn.w.pools[k].to_string()
                    });
                    let fund_n = insurance_fund.as_ref().map(|f| if f.as_str() == ic.w.fund.as_str() { inn.w.fund.to_string() } else { f.clone() });
                    Act::EngineAdmin {
                        sender: sender.clone(),
                        msg: eng::ExecuteMsg::UpdateConfig {
                            owner: owner.clone(),
                            insurance_fund: fund_n,
                            fee_pool: pool_n,
                            initial_margin_ratio: *initial_margin_ratio,
                            maintenance_margin_ratio: *maintenance_margin_ratio,
                            partial_liquidation_ratio: *partial_liquidation_ratio,
                            liquidation_fee: *liquidation_fee,
                        },
                        attach: 0,
                    }
                }
                other => other.clone(),
            };
            let attach_override = match &act {
                Act::Close { .. } | Act::Withdraw { .. } | Act::Liquidate { .. } | Act::PayFunding { .. } => Some(pulled),
                Act::Deposit { amount, .. } => Some(if rc.ok { pulled } else { *amount }),
                _ => None,
            };
            // the relation presupposes that the caller can attach that amount up front
            if let Some(k) = inn.w.accounts.iter().position(|a| *a == sender) {
                if pulled > pre_n.bal[k] {
                    out.count("attach_unaffordable_history_truncated");
                    break;
                }
            }
            let mut viol: Option<Violation> = None;
            // fees must come from the trader, not from the vault
            if let (Act::Close { .. }, true) = (&act, rc.ok && pulled > 0) {
                let snap = inn.w.snapshot();
                let r0 = {
                    let (msg, _) = inn.engine_msg(&act).unwrap();
                    let engine = inn.w.engine.clone();
                    inn.w.exec(&sender, &engine, &msg, &[], None)
                };
                inn.w.restore(&snap);
                out.count("native_close_without_attached_fees_attempts");
                if r0.ok {
                    viol = Some(
                        Violation::new(
                            "native_fees_paid_by_vault",
                            format!("native ClosePosition with nothing attached succeeds although the cw20 twin charges the trader {} in fees: the fees are paid out of the vault", pulled),
                        )
                        .with("act", "close"),
                    );
                }
            }
            // "a trader is charged the same net amount in both": whenever the cw20 twin pulled something for an order, the same
            // native order with one unit less or one unit more attached is tried on a what-if copy: it is either refused or (an
            // engine that refunds the excess) moves the trader's wallet by exactly what the cw20 twin's wallet moved
            if let (Act::Open { t, v, buy, margin, lev, limit, directed, .. }, true, true) = (&act, rc.ok && pulled > 0, viol.is_none()) {
                if let Some(k) = inn.w.accounts.iter().position(|a| *a == sender) {
                    let delta_c = ic.w.balance(&sender) as i128 - pre_c.bal[k] as i128;
                    for wrong in [pulled - 1, pulled + 1] {
                        if wrong > pre_n.bal[k] {
                            continue;
                        }
                        let snap = inn.w.snapshot();
                        let r0 = inn.exec_act(&Act::Open { t: *t, v: *v, buy: *buy, margin: *margin, lev: *lev, limit: *limit, attach: wrong, directed: *directed });
                        let delta_n = inn.w.balance(&sender) as i128 - pre_n.bal[k] as i128;
                        inn.w.restore(&snap);
                        out.count("native_open_with_wrong_funds_attempts");
                        if r0.ok && delta_n != delta_c {
                            viol = Some(
                                Violation::new(
                                    "native_order_accepted_with_wrong_funds",
                                    format!("native OpenPosition succeeds with {} attached and moves the trader's wallet by {} although the cw20 twin charges {} for the same order (wallet moved by {})", wrong, delta_n, pulled, delta_c),
                                )
                                .with("act", "open")
                                .with("short_by_one", wrong < pulled),
                            );
                            break;
                        }
                    }
                }
            }
            let rn = match attach_override {
                // (a close attaches exactly what the cw20 twin pulled, also when that is nothing)
                Some(a) if (a > 0 || matches!(act, Act::Close { .. })) && !matches!(act, Act::Deposit { .. }) => {
                    let (msg, _) = inn.engine_msg(&act_n).unwrap();
                    let funds = inn.w.funds(a);
                    let engine = inn.w.engine.clone();
                    inn.w.exec(&sender, &engine, &msg, &funds, None)
                }
                _ => inn.exec_act(&act_n),
            };
            let post_c = observe(&ic.w);
            let post_n = observe(&inn.w);
            out.count(&format!("op.{}.{}", act.name(), if rc.ok { "ok" } else { "err" }));
            if ctx.want_summary {
                trace.push(json!({"i": i, "act": act_json(&act), "cw20_ok": rc.ok, "cw20_err": rc.err, "native_ok": rn.ok, "native_err": rn.err, "pulled": pulled.to_string()}));
            }
            if viol.is_none() {
                let effect = act.subject().map(|(v, t)| crate::hist::classify(&act, &pre_c.pos[v][t], &post_c.pos[v][t], rc.ok));
                let eff = format!("{:?}", effect.unwrap_or(crate::hist::Effect::None));
                if rc.ok != rn.ok {
                    viol = Some(
                        Violation::new(
                            "outcome_differs",
                            format!("{} ({}): cw20 twin ok={} ({}), native twin ok={} ({}) with {} attached", act.name(), eff, rc.ok, rc.err, rn.ok, rn.err, pulled),
                        )
                        .with("act", act.name())
                        .with("effect", eff.clone())
                        .with("cw20_ok", rc.ok)
                        .with("fees_pulled", pulled > 0)
                        .with("cw20_err_class", if rc.ok { "none" } else if rc.err.contains("transfer failure") { "transfer" } else { "other" })
                        .with("native_err_class", if rn.err.contains("transfer failure") { "transfer" } else if rn.err.contains("sent funds") { "funds" } else { "other" })
                        // known finding F6b, recomputed: the native close counts the attached fees as vault balance, so it fails exactly
                        // when the vault alone (before the call) is smaller than what the cw20 twin paid the trader
                        .with("f6b_predicted", {
                            let payout_c: u128 = rc.xfers.iter().filter(|x| x.from == ic.w.engine.as_str() && x.to == sender).map(|x| x.amount).sum();
                            pulled > 0 && pre_n.bal[inn.w.idx_engine()] < payout_c
                        }),
                    );
                } else {
                    out.count("lockstep_checks");
                    'cmp: {
                        for v in 0..ic.w.vamms.len() {
                            if post_c.v[v].state != post_n.v[v].state {
                                viol = Some(Violation::new("vamm_state_differs", format!("after {} ({}): vAMM {} state {:?} vs {:?}", act.name(), eff, v, post_c.v[v].state, post_n.v[v].state)).with("act", act.name()).with("effect", eff.clone()));
                                break 'cmp;
                            }
                            for t in 0..N_TRADERS {
                                if !pos_eq(&post_c.pos[v][t], &post_n.pos[v][t]) {
                                    viol = Some(
                                        Violation::new("position_differs", format!("after {} ({}): position of {} on vAMM {}: cw20 {:?} vs native {:?}", act.name(), eff, ic.w.traders[t], v, post_c.pos[v][t], post_n.pos[v][t]))
                                            .with("act", act.name())
                                            .with("effect", eff.clone()),
                                    );
                                    break 'cmp;
                                }
                            }
                        }
                        if post_c.estate != post_n.estate {
                            viol = Some(Violation::new("engine_state_differs", format!("after {}: engine state {:?} vs {:?}", act.name(), post_c.estate, post_n.estate)).with("act", act.name()).with("effect", eff.clone()));
                            break 'cmp;
                        }
                        // users and engine / fund / fee pool occupy the same indices in both worlds
                        let n_cmp = N_TRADERS + 7;
                        // ... and the second fee pool is the last account of both
                        let last = ic.w.idx_pool2;
                        for k in (0..n_cmp).chain(std::iter::once(last)) {
                            let (dc, dn) = (delta(&pre_c, &post_c, k), delta(&pre_n, &post_n, k));
                            if dc != dn {
                                viol = Some(
                                    Violation::new(
                                        "balance_delta_differs",
                                        format!("{} ({}): balance of {} moved by {} in the cw20 twin and by {} in the native twin ({} attached)", act.name(), eff, ic.w.accounts[k], dc, dn, pulled),
                                    )
                                    .with("act", act.name())
                                    .with("effect", eff.clone())
                                    .with("account", if k < N_TRADERS + 4 { "user" } else { "contract" }),
                                );
                                break 'cmp;
                            }
                        }
                    }
                    if rc.ok && fees_on && matches!(effect, Some(crate::hist::Effect::Reversed) | Some(crate::hist::Effect::Closed)) {
                        interesting += 1;
                        out.count(&format!("with_fees.{}", eff));
                    }
                    if rc.ok && pulled > 0 && rc.xfers.iter().any(|x| x.to == sender) {
                        interesting += 1;
                        out.count("attached_and_refunded");
                    }
                }
            }
            if let Some(v) = viol {
                match ctx.filter(&mut out, v.at(i)) {
                    Some(v) => {
                        out.violation = Some(v);
                        break;
                    }
                    None => {
                        // a lock-step divergence on a known finding makes the rest of the history incomparable;
                        // the what-if clause (fees from the vault) leaves both twins untouched
                        if post_c.v.iter().zip(post_n.v.iter()).any(|(a, b)| a.state != b.state) || rc.ok != rn.ok {
                            out.count("truncated_after_known_finding");
                            break;
                        }
                    }
                }
            }
            pre_c = post_c;
            pre_n = post_n;
        }
        let _ = pre_n;
        out.nontrivial = interesting >= 1;
        if ctx.want_summary {
            out.summary = Some(json!({"interesting": interesting, "trace": trace}));
        }
        out
    }
}
