//! C04 — closing pays exactly the position's equity; bad debt cannot be cashed out.
use super::histprop::HistProp;
use crate::hist::{Act, Effect, Interp, Monitor, Obs, Step};
use crate::ops::{CfgProfile, Weights};
use crate::oracle::{flow, pos_ref, pos_ref_m, PosRef};
use crate::refmath::{pnl, S};
use crate::run::{Outcome, Violation};
use crate::world::World;
use serde_json::json;

#[derive(Default)]
pub struct Mon {
    pre_ref: Option<PosRef>,
    interesting: u64,
}

impl Monitor for Mon {
    fn before(&mut self, it: &mut Interp, act: &Act, pre: &Obs, _out: &mut Outcome) -> Option<Violation> {
        self.pre_ref = None;
        if let Act::Close { t, v, .. } | Act::Open { t, v, .. } = act {
            self.pre_ref = pos_ref_m(&it.w, pre, *v, *t);
        }
        None
    }
    fn after(&mut self, w: &World, s: &Step, out: &mut Outcome) -> Option<Violation> {
        let d = w.d;
        if let (Act::Close { t, v, .. }, Some(pr)) = (s.act, self.pre_ref.clone()) {
            let trader = &w.traders[*t];
            let q = s.pre.v[*v].state.quote_asset_reserve.u128().abs_diff(s.post.v[*v].state.quote_asset_reserve.u128());
            match s.effect {
                Effect::Closed => {
                    let realised = pnl(pr.long, q, pr.notional);
                    // `pr.funding` is the funding owed according to the history model (oracle::FundingModel), not according to
                    // the stored checkpoint / the engine's current cumulative fraction
                    if let Some(stored) = pos_ref(w, s.pre, *v, *t) {
                        if stored.funding != pr.funding {
                            out.count("stored_funding_differs_from_history_model");
                        }
                    }
                    let equity = pr.equity(&realised);
                    let paid = flow(&s.res.xfers, Some(w.engine.as_str()), trader);
                    out.count("whole_close_checks");
                    if !realised.is_zero() && !pr.funding.is_zero() {
                        self.interesting += 1;
                        out.count("whole_close_with_pnl_and_funding");
                    }
                    if equity.is_neg() {
                        return Some(
                            Violation::new(
                                "closed_with_negative_equity",
                                format!("whole close succeeded although margin {} + pnl {} - funding {} = {} < 0", pr.margin, realised, pr.funding, equity),
                            )
                            .with("long", pr.long),
                        );
                    }
                    if S::pos(paid) != equity {
                        return Some(
                            Violation::new(
                                "close_payout",
                                format!(
                                    "whole close of {} {}: engine paid the trader {} but margin {} + realised pnl {} (quote exchanged {} vs open notional {}) - funding owed {} = {}",
                                    if pr.long { "long" } else { "short" },
                                    pr.size,
                                    paid,
                                    pr.margin,
                                    realised,
                                    q,
                                    pr.notional,
                                    pr.funding,
                                    equity
                                ),
                            )
                            .with("long", pr.long)
                            .with("native", w.cfg.native)
                            .with("funding_zero", pr.funding.is_zero()),
                        );
                    }
                    if s.post.pos[*v][*t].is_some() {
                        return Some(Violation::new("position_survives_close", "whole close succeeded but the position still exists".into()));
                    }
                }
                Effect::PartialClosed => {
                    // rejection clause, contrapositive: a partial close that succeeded did not leave the trader owing more than the margin
                    if let (Some(ups), Some(p1)) = (pr.pnl_spot(), &s.post.pos[*v][*t]) {
                        let closed = pr.size - p1.size.value.u128();
                        let realised = ups.mul(&S::pos(closed)).div_trunc(&S::pos(pr.size));
                        let rem = pr.equity(&realised);
                        out.count("partial_close_checks");
                        if rem.is_neg() {
                            return Some(Violation::new(
                                "partial_close_with_bad_debt",
                                format!("partial close succeeded although margin {} + realised {} - funding {} = {} < 0", pr.margin, realised, pr.funding, rem),
                            ));
                        }
                    }
                }
                _ if s.res.ok && s.pre.v[*v].state.total_position_size != s.post.v[*v].state.total_position_size && s.pre.pos[*v][*t].as_ref().map(|p| p.size) == s.post.pos[*v][*t].as_ref().map(|p| p.size) => {
                    // the vAMM traded the position away but the engine's record is what it was
                    return Some(Violation::new(
                        "position_survives_close",
                        format!("ClosePosition succeeded and the vAMM's net position moved {} -> {}, but the trader's recorded size is still {}", s.pre.v[*v].state.total_position_size, s.post.v[*v].state.total_position_size, pr.size),
                    ));
                }
                _ => {
                    if !s.res.ok && s.res.err.contains("bad debt") {
                        self.interesting += 1;
                        out.count("close_rejected_for_bad_debt");
                    }
                }
            }
        }
        // the open notional is the position's cost basis: whatever part of the position is traded away for Q quote with a realised
        // PnL of r, the rest keeps N - Q + r (long) / N - Q - r (short), so that realised PnL over the position's life adds up to
        // the quote received minus the quote paid; an increase adds the quote it pays
        if let (Act::Open { t, v, .. } | Act::Close { t, v, .. }, Some(pr), true) = (s.act, self.pre_ref.clone(), s.res.ok) {
            if let (Some(p1), Some(ups)) = (s.post.pos[*v][*t].as_ref(), pr.pnl_spot()) {
                let q = s.pre.v[*v].state.quote_asset_reserve.u128().abs_diff(s.post.v[*v].state.quote_asset_reserve.u128());
                let exp: Option<S> = match s.effect {
                    Effect::Increased => Some(S::pos(pr.notional).add(&S::pos(q))),
                    Effect::Reduced | Effect::PartialClosed => {
                        let closed = pr.size - p1.size.value.u128();
                        let r = ups.mul(&S::pos(closed)).div_trunc(&S::pos(pr.size));
                        let base = S::pos(pr.notional).sub(&S::pos(q));
                        Some(if pr.long { base.add(&r) } else { base.sub(&r) })
                    }
                    _ => None,
                };
                if let Some(exp) = exp {
                    if exp.is_neg() {
                        // the part traded away was paid more than the whole position cost: what is left has a negative cost basis, which
                        // an unsigned open notional cannot hold (storing its magnitude would shift the position's lifetime PnL by twice
                        // that amount): the order cannot go through
                        return Some(
                            Violation::new(
                                "open_notional_bookkeeping",
                                format!(
                                    "{:?} succeeded although cost basis {} - quote exchanged {} {} realised pnl = {} < 0; the stored open notional is {}",
                                    s.effect,
                                    pr.notional,
                                    q,
                                    if pr.long { "+" } else { "-" },
                                    exp,
                                    p1.notional
                                ),
                            )
                            .with("effect", format!("{:?}", s.effect))
                            .with("negative_basis", true),
                        );
                    } else {
                        out.count("open_notional_checks");
                        if S::pos(p1.notional.u128()) != exp {
                            return Some(
                                Violation::new(
                                    "open_notional_bookkeeping",
                                    format!(
                                        "{:?}: stored open notional {} -> {} but cost basis {} {} quote exchanged {} {} realised pnl = {}",
                                        s.effect,
                                        pr.notional,
                                        p1.notional,
                                        pr.notional,
                                        if s.effect == Effect::Increased { "+" } else { "-" },
                                        q,
                                        if pr.long { "+" } else { "-" },
                                        exp
                                    ),
                                )
                                .with("effect", format!("{:?}", s.effect))
                                .with("long", pr.long),
                            );
                        }
                    }
                }
            }
        }
        // a whole position closed by an order on the opposite side (exactly flat, or reversed into a new position) settles like a
        // close: the owner's wallet moves by (margin + realised PnL - funding owed) - fees - the margin of what the order leaves
        if let (Act::Open { t, v, .. }, Some(pr), true, false) = (s.act, self.pre_ref.clone(), s.res.ok, w.cfg.native) {
            if matches!(s.effect, Effect::Closed | Effect::Reversed) {
                if let Some(n_close) = pr.n_spot {
                    let realised = pnl(pr.long, n_close, pr.notional);
                    let equity = pr.equity(&realised);
                    if equity.is_neg() && s.effect == Effect::Closed {
                        // the rejection clause: a position that owes more than its margin cannot be closed for a payout
                        return Some(
                            Violation::new(
                                "closed_with_negative_equity",
                                format!(
                                    "an opposite order closed the whole position although margin {} + pnl {} - funding {} = {} < 0 (wallet moved by {})",
                                    pr.margin,
                                    realised,
                                    pr.funding,
                                    equity,
                                    S::pos(s.post.bal[*t]).sub(&S::pos(s.pre.bal[*t]))
                                ),
                            )
                            .with("long", pr.long)
                            .with("by", "opposite_order"),
                        );
                    }
                    if !equity.is_neg() || s.effect == Effect::Reversed {
                        out.count("closed_by_opposite_order_checks");
                        let trader = &w.traders[*t];
                        let fees_paid: u128 = s.res.xfers.iter().filter(|x| &x.from == trader && (x.to == w.fund.as_str() || x.to == w.fee_pool.as_str())).map(|x| x.amount).sum();
                        let kept = S::pos(s.post.pos[*v][*t].as_ref().map(|p| p.margin.u128()).unwrap_or(0));
                        let exp = equity.sub(&S::pos(fees_paid)).sub(&kept);
                        let obs = S::pos(s.post.bal[*t]).sub(&S::pos(s.pre.bal[*t]));
                        if !pr.funding.is_zero() && !realised.is_zero() {
                            self.interesting += 1;
                        }
                        if obs != exp {
                            return Some(
                                Violation::new(
                                    "closed_by_opposite_order_payout",
                                    format!(
                                        "{:?} by an opposite order: wallet moved by {} but (margin {} + realised pnl {} - funding owed {}) {} - fees {} - margin of what remains {} = {}",
                                        s.effect, obs, pr.margin, realised, pr.funding, equity, fees_paid, kept, exp
                                    ),
                                )
                                .with("effect", format!("{:?}", s.effect))
                                .with("funding_zero", pr.funding.is_zero()),
                            );
                        }
                    }
                }
            }
        }
        // trader-initiated actions never lower the fund by more than the recorded prepaid bad debt
        if s.res.ok && matches!(s.act, Act::Open { .. } | Act::Close { .. } | Act::Deposit { .. } | Act::Withdraw { .. }) {
            let i = w.idx_fund();
            let outflow = s.pre.bal[i].saturating_sub(s.post.bal[i]);
            let debt_rise = s.post.estate.bad_debt.u128().saturating_sub(s.pre.estate.bad_debt.u128());
            out.count("fund_outflow_checks");
            if outflow > 0 {
                self.interesting += 1;
                out.count("vault_shortfall_covered_by_fund");
            }
            if outflow > debt_rise {
                return Some(
                    Violation::new(
                        "fund_lowered_beyond_bad_debt",
                        format!("{} ({:?}) lowered the insurance fund by {} while prepaid bad debt rose by {}", s.act.name(), s.effect, outflow, debt_rise),
                    )
                    .with("act", s.act.name())
                    .with("effect", format!("{:?}", s.effect)),
                );
            }
        }
        let _ = d;
        None
    }
    fn end(&mut self, _w: &World, out: &mut Outcome) {
        out.nontrivial = self.interesting >= 1;
        out.summary = Some(json!({"interesting_events": self.interesting}));
    }
}

pub fn prop() -> HistProp {
    let mut w = Weights::trading();
    // funding drains: the oracle is set so that the next settlement consumes about half / all / several times a holder's margin
    w.drain = 3;
    w.close = 22;
    w.funding = 10;
    w.block = 12;
    w.oracle = 6;
    w.liq_weakest = 3;
    w.liquidate = 1;
    w.squeeze = 3;
    // somebody takes the other side of the whole net position: an exactly balanced market with open positions
    w.balance = 4;
    // a run of funding periods settled one after the other (the per-market list of cumulative fractions grows long)
    w.burst = 2;
    HistProp {
        id: "C04",
        level: "exploration",
        profile: CfgProfile::general(),
        weights: w,
        min_ops: 5,
        max_ops: (40, 100),
        cases: (12_000, 400_000),
        make: || Box::new(Mon::default()),
        rule: "engine histories ending in many closes: longs and shorts, price moved by other traders and whale trades, funding settlements of both signs (oracle above/below the vAMM TWAP), fees, deposits/withdrawals, large and nearly empty insurance fund / vault. For each successful whole ClosePosition: Q = |delta quote reserve|, PnL = Q - N (long) / N - Q (short), F = trunc((Phi - L)*S/D) with L the cumulative fraction at the owner's last charged operation as tracked by the harness (so a stale stored checkpoint is noticed); the engine->trader transfers of the transaction must sum to exactly M + PnL - F, which must be >= 0, and the position must be gone. A successful partial close must not leave M + trunc(uPnL*closed/|S|) - F negative. For every successful Open/Close/Deposit/Withdraw the insurance fund's balance falls by no more than the rise of State.bad_debt. Non-trivial: a whole close with PnL != 0 and F != 0, or a close rejected for bad debt, or a trader action with a vault shortfall covered by the fund. Distinct by digest of (cfg, ops).",
        assumptions: &["payout is read from the dispatched engine->trader transfers (fees travel separately)"],
        eval_counter: None,
    }
}
