//! C17 — quoted amounts equal executed amounts; slippage limits are honoured (vAMM level; engine level in c17e).
use super::curve::*;
use crate::hist::{run_history, Act, Effect, Interp, Monitor, Obs, Step};
use crate::ops::{hist_strategy, CfgProfile, HistCase, Weights};
use crate::run::{Ctx, Outcome, Property, Tier, Violation};
use crate::world::World;
use serde::{Deserialize, Serialize};
use crate::vsim::{attr, VSim};
use cosmwasm_std::{Order, Storage, Uint128};
use proptest::prelude::*;
use proptest::strategy::BoxedStrategy;
use serde_json::json;

pub struct C17;

fn restore(sim: &mut VSim, dump: &[(Vec<u8>, Vec<u8>)]) {
    let keys: Vec<Vec<u8>> = sim.deps.storage.range(None, None, Order::Ascending).map(|(k, _)| k).collect();
    for k in keys {
        sim.deps.storage.remove(&k);
    }
    for (k, v) in dump {
        sim.deps.storage.set(k, v);
    }
}

/// does executed amount `e` satisfy non-zero limit `l` for this swap?
/// input+add: trader receives base (>= l); input+remove: trader owes base (<= l);
/// output+add (base into pool): trader receives quote (>= l); output+remove: trader pays quote (<= l)
fn limit_ok(r: &Resolved, e: u128, l: u128) -> bool {
    if r.add {
        e >= l
    } else {
        e <= l
    }
}

pub fn vamm_case(c: &CurveCase, ctx: &Ctx, out: &mut Outcome) {
    let mut sim = match VSim::new(c.decimals, c.x0, c.y0, 0, 0, 0) {
        Ok(s) => s,
        Err(e) => {
            out.harness_error = Some(format!("vAMM instantiate failed: {}", e));
            return;
        }
    };
    let d = sim.d;
    let mut seen: Vec<(crate::refmath::S, u128, u128)> = vec![(crate::refmath::S::zero(), c.x0, c.y0)];
    let mut trace = vec![];
    let mut near_limit_rem = 0u64;
    for (i, op) in c.swaps.iter().enumerate() {
        if op.new_block {
            sim.next_block(15);
        }
        let _ = super::curve::admin_churn(&mut sim, op.admin);
        let st0 = sim.state();
        let r = resolve(op, &st0, d, &seen);
        let dump0 = sim.dump();
        let quote: Result<Uint128, String> = sim.query(quote_query(&r));
        // twin run without a limit: learn what the swap exchanges at this state
        let res0 = exec_swap(&mut sim, &r, 0);
        let st_free = sim.state();
        let dump_free = sim.dump();
        let mut v: Option<Violation> = None;
        let mut executed: Option<u128> = None;
        if let Ok(resp) = &res0 {
            out.count("accepted_unlimited");
            let dq = st_free.quote_asset_reserve.u128().abs_diff(st0.quote_asset_reserve.u128());
            let db = st_free.base_asset_reserve.u128().abs_diff(st0.base_asset_reserve.u128());
            let (same, other) = if r.input { (dq, db) } else { (db, dq) };
            executed = Some(other);
            let ev_q = attr(resp, "quote_asset_amount").and_then(|s| s.parse::<u128>().ok());
            let ev_b = attr(resp, "base_asset_amount").and_then(|s| s.parse::<u128>().ok());
            let (ev_same, ev_other) = if r.input { (ev_q, ev_b) } else { (ev_b, ev_q) };
            if same != r.amount {
                v = Some(Violation::new("requested_side_amount", format!("{:?}: requested side moved by {} instead of {}", r, same, r.amount)));
            } else if ev_other != Some(other) || ev_same != Some(r.amount) {
                v = Some(Violation::new("event_vs_reserves", format!("{:?}: event reports ({:?},{:?}) but reserves moved ({},{})", r, ev_same, ev_other, same, other)));
            } else {
                match &quote {
                    Ok(q) if q.u128() == other => {}
                    other_q => {
                        v = Some(
                            Violation::new("quote_vs_execution", format!("{:?}: query answered {:?} but the swap exchanged {}", r, other_q, other))
                                .with("kind", if r.input { "input" } else { "output" }),
                        )
                    }
                }
            }
        } else {
            out.count("rejected_unlimited");
            if sim.dump() != dump0 {
                v = Some(Violation::new("rejected_swap_changed_state", format!("{:?} failed but storage changed", r)));
            }
        }
        // now the same swap, same pre-state, with a limit
        let mut lim_desc = String::new();
        if v.is_none() {
            if let (Some(e), true) = (executed, op.limit_mode != 0) {
                let l = match op.limit_mode {
                    1 => e.saturating_sub(1),
                    2 => e,
                    3 => e.saturating_add(1),
                    4 => e / 2,
                    // the extremes of the type: the largest number and one raw unit
                    6 => u128::MAX,
                    7 => 1,
                    _ => e.saturating_mul(2).saturating_add(7),
                };
                if l != 0 {
                    restore(&mut sim, &dump0);
                    let res1 = exec_swap(&mut sim, &r, l);
                    let should = limit_ok(&r, e, l);
                    lim_desc = format!("limit {} (executed {}), should_execute={}, did={}", l, e, should, res1.is_ok());
                    out.count(if should { "limit_satisfied" } else { "limit_violated" });
                    let new_side = if r.input { st_free.quote_asset_reserve.u128() } else { st_free.base_asset_reserve.u128() };
                    if l.abs_diff(e) <= 1 {
                        out.count("limit_within_1");
                        let k0 = crate::refmath::scaled_k(st0.quote_asset_reserve.u128(), st0.base_asset_reserve.u128(), d);
                        if new_side != 0 && (k0 * cosmwasm_std::Uint256::from(d)) % cosmwasm_std::Uint256::from(new_side) != cosmwasm_std::Uint256::zero() {
                            near_limit_rem += 1;
                        }
                    }
                    match (&res1, should) {
                        (Ok(_), false) => {
                            v = Some(
                                Violation::new("limit_not_enforced", format!("{:?} executed although {}", r, lim_desc))
                                    .with("kind", if r.input { "input" } else { "output" })
                                    .with("add", r.add),
                            )
                        }
                        (Err(e1), false) => {
                            if sim.dump() != dump0 {
                                v = Some(Violation::new("refused_swap_changed_state", format!("{:?} refused ({}) but storage changed", r, e1)));
                            }
                        }
                        (Ok(_), true) => {
                            if sim.dump() != dump_free {
                                v = Some(Violation::new("limited_swap_differs", format!("{:?} with satisfied {} ended in a different state than without limit", r, lim_desc)));
                            }
                        }
                        (Err(e1), true) => {
                            v = Some(
                                Violation::new("satisfied_limit_refused", format!("{:?} refused ({}) although {}", r, e1, lim_desc))
                                    .with("kind", if r.input { "input" } else { "output" })
                                    .with("add", r.add),
                            )
                        }
                    }
                    // continue the history from the unlimited outcome
                    restore(&mut sim, &dump_free);
                }
            }
        }
        if res0.is_ok() {
            seen.push((crate::refmath::S::from_integer(st_free.total_position_size), st_free.quote_asset_reserve.u128(), st_free.base_asset_reserve.u128()));
        }
        if ctx.want_summary {
            trace.push(json!({"swap": format!("{:?}", r), "quote": format!("{:?}", quote), "executed": executed.map(|e| e.to_string()), "limit": lim_desc}));
        }
        if let Some(v) = v {
            if let Some(v) = ctx.filter(out, v.at(i)) {
                out.violation = Some(v);
                break;
            }
        }
    }
    out.nontrivial = near_limit_rem >= 1;
    if ctx.want_summary {
        out.summary = Some(json!({"near_limit_with_remainder": near_limit_rem, "trace": trace}));
    }
}


// ------------------------------------------------------------------------------------------------ engine level

#[derive(Default)]
pub struct Mon17 {
    near_limit: u64,
}

fn with_limit(act: &Act, l: u128) -> Act {
    match act {
        Act::Open { t, v, buy, margin, lev, attach, directed, .. } => Act::Open { t: *t, v: *v, buy: *buy, margin: *margin, lev: *lev, limit: l, attach: *attach, directed: *directed },
        Act::Close { t, v, .. } => Act::Close { t: *t, v: *v, limit: l },
        Act::Liquidate { who, v, target, attach, .. } => Act::Liquidate { who: who.clone(), v: *v, target: *target, limit: l, attach: *attach },
        other => other.clone(),
    }
}

impl Monitor for Mon17 {
    fn before(&mut self, it: &mut Interp, act: &Act, pre: &Obs, out: &mut Outcome) -> Option<Violation> {
        let (v, t) = match act {
            Act::Open { v, t, .. } | Act::Close { v, t, .. } => (*v, *t),
            // a liquidation that takes the whole position is a whole-position close carrying the liquidator's limit
            Act::Liquidate { v, target, .. } => (*v, *target),
            _ => return None,
        };
        let snap = it.w.snapshot();
        // (1) without a limit: what does the trade exchange?
        let free = with_limit(act, 0);
        let r0 = it.exec_act(&free);
        let post0 = crate::hist::observe(&it.w);
        it.w.restore(&snap);
        if !r0.ok {
            return None;
        }
        let eff = crate::hist::classify(act, &pre.pos[v][t], &post0.pos[v][t], true);
        let (st0, st1) = (&pre.v[v].state, &post0.v[v].state);
        // executed amount on the limited side and whether the trader receives (>= limit) or gives (<= limit)
        let (executed, receives) = match (act, eff) {
            (Act::Open { buy, .. }, Effect::Opened | Effect::Increased | Effect::Reduced) => (st0.base_asset_reserve.u128().abs_diff(st1.base_asset_reserve.u128()), *buy),
            (Act::Close { .. }, Effect::Closed) | (Act::Liquidate { .. }, Effect::LiqFull) => {
                let long = pre.pos[v][t].as_ref().map(|p| !p.size.is_negative()).unwrap_or(true);
                (st0.quote_asset_reserve.u128().abs_diff(st1.quote_asset_reserve.u128()), long)
            }
            _ => {
                out.count("engine.path_without_limit_clause");
                return None;
            }
        };
        if executed == 0 {
            return None;
        }
        out.count("engine.limit_experiments");
        if matches!(act, Act::Liquidate { .. }) {
            out.count("engine.whole_liquidation_limit_experiments");
        }
        self.near_limit += 1;
        let kind = format!("{}:{:?}", act.name(), eff);
        // (2) limits the executed amount satisfies - exactly at it, and far on the satisfied side: identical outcome
        let own_size = pre.pos[v][t].as_ref().map(|p| p.size.value.u128()).unwrap_or(0);
        let good: Vec<u128> = if receives { vec![executed, (executed / 2).max(1), 1] } else { vec![executed, executed.saturating_mul(2), executed.saturating_add(own_size).saturating_add(1), u128::MAX / 4] };
        for (k, g) in good.iter().enumerate() {
            if k > 0 && *g == executed {
                continue;
            }
            let r1 = it.exec_act(&with_limit(act, *g));
            let post1 = crate::hist::observe(&it.w);
            it.w.restore(&snap);
            if !r1.ok || post1 != post0 {
                return Some(
                    Violation::new(
                        "engine_limit_at_executed_amount",
                        format!("{} ({}): without limit it exchanges {}; with limit = {} ({}) the call {} (state equal to the unlimited run: {})", act.name(), kind, executed, g, if receives { "receive at least" } else { "give at most" }, if r1.ok { "succeeds" } else { "fails" }, post1 == post0),
                    )
                    .with("kind", kind)
                    .with("receives", receives)
                    .with("far", k > 0),
                );
            }
        }
        // (3) limits the executed amount does not satisfy - one unit beside it, and far on the failing side (beyond the trader's
        // own position size, the pool's depth): must be refused, nothing changes
        let pool_base = st0.base_asset_reserve.u128();
        let bad: Vec<u128> = if receives {
            vec![executed + 1, executed.saturating_mul(2).saturating_add(1), own_size.max(executed).saturating_add(1), pool_base.max(executed).saturating_add(1)]
        } else {
            vec![executed - 1, executed / 2, 1]
        };
        for (k, b) in bad.iter().enumerate() {
            if *b == 0 || (k > 0 && *b == bad[0]) || (receives && *b <= executed) || (!receives && *b >= executed) {
                continue;
            }
            let d0 = it.w.dump();
            let r2 = it.exec_act(&with_limit(act, *b));
            let changed = it.w.dump() != d0;
            it.w.restore(&snap);
            if r2.ok {
                return Some(
                    Violation::new(
                        "engine_limit_not_applied",
                        format!("{} ({}): the trade exchanges {} but succeeded with limit {} ({}): the caller's limit was not applied", act.name(), kind, executed, b, if receives { "receive at least" } else { "give at most" }),
                    )
                    .with("kind", kind)
                    .with("receives", receives)
                    .with("far", k > 0),
                );
            }
            if changed {
                return Some(Violation::new("refused_trade_changed_state", format!("{} refused for its limit but storage changed", act.name())).with("kind", kind));
            }
        }
        None
    }
    fn after(&mut self, _w: &World, _s: &Step, _out: &mut Outcome) -> Option<Violation> {
        None
    }
    fn end(&mut self, _w: &World, out: &mut Outcome) {
        out.nontrivial = self.near_limit >= 2;
    }
}

#[derive(Clone, Debug, Serialize, Deserialize)]
pub enum Case {
    Vamm(CurveCase),
    Engine(HistCase),
}

impl Property for C17 {
    type Case = Case;
    fn id(&self) -> &'static str {
        "C17"
    }
    fn strategy(&self, tier: Tier) -> BoxedStrategy<Case> {
        // fluctuation limits stay on: a close that breaches the band at a partial ratio of 100% is still a whole close
        let mut p = CfgProfile::general();
        // caps and whitelisted traders (exempt from them): a limit is the caller's, whatever the caps say
        p.caps = true;
        let mut w = Weights::trading();
        w.whitelist = 3;
        // the pauser role changes hands: to a trading account and back (holding a role is not being whitelisted)
        w.handover = 2;
        w.vcfg = 2;
        w.close = 18;
        w.squeeze = 3;
        w.liq_weakest = 3;
        w.liquidate = 1;
        w.funding = 3;
        prop_oneof![
            15 => case_strategy(tier.pick(30, 60)).prop_map(Case::Vamm),
            1 => hist_strategy(&p, &w, 4, tier.pick(25, 50)).prop_map(Case::Engine),
        ]
        .boxed()
    }
    fn cases(&self, tier: Tier) -> u32 {
        tier.pick(120_000, 3_000_000)
    }
    fn rule(&self) -> String {
        "vAMM level (15/16 of the cases): generated reserve pairs and swap histories as in C01; at every step the InputAmount/OutputAmount answer in the pre-state is compared with what the same swap exchanges (reserve deltas and event attributes), the requested side must move by exactly the requested amount, and the same swap is re-executed from the same pre-state with a limit of executed-1 / executed / executed+1 / half / double: it must execute (with an identical post-state) iff the executed amount satisfies the limit by direction, and a refusal must leave raw storage unchanged. Engine level (1/16): generated engine histories; every OpenPosition that opens / increases / reduces and every whole ClosePosition is run on a what-if copy without limit to learn the exchanged base (resp. quote) amount, then from the same pre-state with limits the executed amount satisfies (exactly at it; far on the satisfied side: half / one unit when receiving, double / beyond the position size / huge when giving: must succeed with an identical observable state) and limits it does not satisfy (one raw unit beside it; far on the failing side: double, beyond the trader's own position size, beyond the pool's depth / half, one unit: must fail, dump unchanged). A Liquidate that removes the whole position (directly, or because a partial liquidation could not be covered) is treated as a whole-position close carrying the liquidator's limit and gets the same experiments. Reversals, partial closes and partial liquidations (whose limit the engine scales) have no clause in the statement and are counted only. Non-trivial: vAMM: a swap with non-zero division remainder and a limit within +-1 of the executed amount; engine: >= 2 limit experiments in the history. Distinct by digest of the case. Zero-amount swaps are outside the domain (no caller of the vAMM sends one).".into()
    }
    fn assumptions(&self) -> Vec<String> {
        vec!["'honoured' is read in both directions: the limit is the only thing a limit may influence, so a swap whose limit is satisfied must behave exactly like the unlimited swap from the same state".into()]
    }
    fn run_case(&self, c: &Case, ctx: &Ctx) -> Outcome {
        let mut out = Outcome::default();
        match c {
            Case::Vamm(cc) => vamm_case(cc, ctx, &mut out),
            Case::Engine(h) => {
                let mut m = Mon17::default();
                run_history(h, &mut m, ctx, &mut out);
            }
        }
        out
    }
}
