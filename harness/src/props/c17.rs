//! C17 — quoted amounts equal executed amounts; slippage limits are honoured (vAMM level; engine level in c17e).
use super::curve::*;
use crate::run::{Ctx, Outcome, Property, Tier, Violation};
use crate::vsim::{attr, VSim};
use cosmwasm_std::{Order, Storage, Uint128};
use proptest::prelude::*;
use proptest::strategy::BoxedStrategy;
use serde_json::json;

pub struct C17;

fn restore(sim: &mut VSim, dump: &[(Vec<u8>, Vec<u8>)]) {
    let keys: Vec<Vec<u8>> = sim.deps.storage.range(None, None, Order::Ascending).map(|(k, _)| k).collect();
    for k in keys {
        sim.deps.storage.remove(&k);
    }
    for (k, v) in dump {
        sim.deps.storage.set(k, v);
    }
}

/// does executed amount `e` satisfy non-zero limit `l` for this swap?
/// input+add: trader receives base (>= l); input+remove: trader owes base (<= l);
/// output+add (base into pool): trader receives quote (>= l); output+remove: trader pays quote (<= l)
fn limit_ok(r: &Resolved, e: u128, l: u128) -> bool {
    if r.add {
        e >= l
    } else {
        e <= l
    }
}

pub fn vamm_case(c: &CurveCase, ctx: &Ctx, out: &mut Outcome) {
    let mut sim = match VSim::new(c.decimals, c.x0, c.y0, 0, 0, 0) {
        Ok(s) => s,
        Err(e) => {
            out.harness_error = Some(format!("vAMM instantiate failed: {}", e));
            return;
        }
    };
    let d = sim.d;
    let mut seen: Vec<(crate::refmath::S, u128, u128)> = vec![(crate::refmath::S::zero(), c.x0, c.y0)];
    let mut trace = vec![];
    let mut near_limit_rem = 0u64;
    for (i, op) in c.swaps.iter().enumerate() {
        if op.new_block {
            sim.next_block(15);
        }
        let st0 = sim.state();
        let r = resolve(op, &st0, d, &seen);
        let dump0 = sim.dump();
        let quote: Result<Uint128, String> = sim.query(quote_query(&r));
        // twin run without a limit: learn what the swap exchanges at this state
        let res0 = exec_swap(&mut sim, &r, 0);
        let st_free = sim.state();
        let dump_free = sim.dump();
        let mut v: Option<Violation> = None;
        let mut executed: Option<u128> = None;
        if let Ok(resp) = &res0 {
            out.count("accepted_unlimited");
            let dq = st_free.quote_asset_reserve.u128().abs_diff(st0.quote_asset_reserve.u128());
            let db = st_free.base_asset_reserve.u128().abs_diff(st0.base_asset_reserve.u128());
            let (same, other) = if r.input { (dq, db) } else { (db, dq) };
            executed = Some(other);
            let ev_q = attr(resp, "quote_asset_amount").and_then(|s| s.parse::<u128>().ok());
            let ev_b = attr(resp, "base_asset_amount").and_then(|s| s.parse::<u128>().ok());
            let (ev_same, ev_other) = if r.input { (ev_q, ev_b) } else { (ev_b, ev_q) };
            if same != r.amount {
                v = Some(Violation::new("requested_side_amount", format!("{:?}: requested side moved by {} instead of {}", r, same, r.amount)));
            } else if ev_other != Some(other) || ev_same != Some(r.amount) {
                v = Some(Violation::new("event_vs_reserves", format!("{:?}: event reports ({:?},{:?}) but reserves moved ({},{})", r, ev_same, ev_other, same, other)));
            } else {
                match &quote {
                    Ok(q) if q.u128() == other => {}
                    other_q => {
                        v = Some(
                            Violation::new("quote_vs_execution", format!("{:?}: query answered {:?} but the swap exchanged {}", r, other_q, other))
                                .with("kind", if r.input { "input" } else { "output" }),
                        )
                    }
                }
            }
        } else {
            out.count("rejected_unlimited");
            if sim.dump() != dump0 {
                v = Some(Violation::new("rejected_swap_changed_state", format!("{:?} failed but storage changed", r)));
            }
        }
        // now the same swap, same pre-state, with a limit
        let mut lim_desc = String::new();
        if v.is_none() {
            if let (Some(e), true) = (executed, op.limit_mode != 0) {
                let l = match op.limit_mode {
                    1 => e.saturating_sub(1),
                    2 => e,
                    3 => e.saturating_add(1),
                    4 => e / 2,
                    _ => e.saturating_mul(2).saturating_add(7),
                };
                if l != 0 {
                    restore(&mut sim, &dump0);
                    let res1 = exec_swap(&mut sim, &r, l);
                    let should = limit_ok(&r, e, l);
                    lim_desc = format!("limit {} (executed {}), should_execute={}, did={}", l, e, should, res1.is_ok());
                    out.count(if should { "limit_satisfied" } else { "limit_violated" });
                    let new_side = if r.input { st_free.quote_asset_reserve.u128() } else { st_free.base_asset_reserve.u128() };
                    if l.abs_diff(e) <= 1 {
                        out.count("limit_within_1");
                        let k0 = crate::refmath::scaled_k(st0.quote_asset_reserve.u128(), st0.base_asset_reserve.u128(), d);
                        if new_side != 0 && (k0 * cosmwasm_std::Uint256::from(d)) % cosmwasm_std::Uint256::from(new_side) != cosmwasm_std::Uint256::zero() {
                            near_limit_rem += 1;
                        }
                    }
                    match (&res1, should) {
                        (Ok(_), false) => {
                            v = Some(
                                Violation::new("limit_not_enforced", format!("{:?} executed although {}", r, lim_desc))
                                    .with("kind", if r.input { "input" } else { "output" })
                                    .with("add", r.add),
                            )
                        }
                        (Err(e1), false) => {
                            if sim.dump() != dump0 {
                                v = Some(Violation::new("refused_swap_changed_state", format!("{:?} refused ({}) but storage changed", r, e1)));
                            }
                        }
                        (Ok(_), true) => {
                            if sim.dump() != dump_free {
                                v = Some(Violation::new("limited_swap_differs", format!("{:?} with satisfied {} ended in a different state than without limit", r, lim_desc)));
                            }
                        }
                        (Err(e1), true) => {
                            v = Some(
                                Violation::new("satisfied_limit_refused", format!("{:?} refused ({}) although {}", r, e1, lim_desc))
                                    .with("kind", if r.input { "input" } else { "output" })
                                    .with("add", r.add),
                            )
                        }
                    }
                    // continue the history from the unlimited outcome
                    restore(&mut sim, &dump_free);
                }
            }
        }
        if res0.is_ok() {
            seen.push((crate::refmath::S::from_integer(st_free.total_position_size), st_free.quote_asset_reserve.u128(), st_free.base_asset_reserve.u128()));
        }
        if ctx.want_summary {
            trace.push(json!({"swap": format!("{:?}", r), "quote": format!("{:?}", quote), "executed": executed.map(|e| e.to_string()), "limit": lim_desc}));
        }
        if let Some(v) = v {
            if let Some(v) = ctx.filter(out, v.at(i)) {
                out.violation = Some(v);
                break;
            }
        }
    }
    out.nontrivial = near_limit_rem >= 1;
    if ctx.want_summary {
        out.summary = Some(json!({"near_limit_with_remainder": near_limit_rem, "trace": trace}));
    }
}

impl Property for C17 {
    type Case = CurveCase;
    fn id(&self) -> &'static str {
        "C17"
    }
    fn strategy(&self, tier: Tier) -> BoxedStrategy<CurveCase> {
        case_strategy(tier.pick(30, 60)).boxed()
    }
    fn cases(&self, tier: Tier) -> u32 {
        tier.pick(300_000, 6_000_000)
    }
    fn rule(&self) -> String {
        "vAMM level: generated reserve pairs and swap histories as in C01; at every step the InputAmount/OutputAmount answer in the pre-state is compared with what the same swap exchanges (reserve deltas and event attributes), the requested side must move by exactly the requested amount, and the same swap is re-executed from the same pre-state with a limit of executed-1 / executed / executed+1 / half / double: it must execute (with an identical post-state) iff the executed amount satisfies the limit by direction, and a refusal must leave raw storage unchanged. Non-trivial: a history containing a swap with non-zero division remainder whose limit is within +-1 of the executed amount. Distinct by digest of (reserves, ops).".into()
    }
    fn assumptions(&self) -> Vec<String> {
        vec!["'honoured' is read in both directions: the limit is the only thing a limit may influence, so a swap whose limit is satisfied must behave exactly like the unlimited swap from the same state".into()]
    }
    fn run_case(&self, c: &CurveCase, ctx: &Ctx) -> Outcome {
        let mut out = Outcome::default();
        vamm_case(c, ctx, &mut out);
        out
    }
}
