pub mod c01;
pub mod c17;
pub mod c19;
pub mod curve;
