pub mod c19;
