//! C19 — signed integers behave like mathematical integers.
use crate::refmath::S;
use crate::run::{Ctx, Outcome, Property, Tier, Violation};
use cosmwasm_std::{Uint128, Uint256};
use margined_common::integer::Integer;
use proptest::prelude::*;
use proptest::strategy::BoxedStrategy;
use serde::{Deserialize, Serialize};
use serde_json::json;
use std::cmp::Ordering;
use std::panic::{catch_unwind, AssertUnwindSafe};
use std::str::FromStr;

#[derive(Clone, Debug, Serialize, Deserialize)]
pub struct Case {
    /// how the operand is constructed: 0 = new_positive/new_negative, 1 = struct literal, 2 = From<i128> when it fits
    pub ctor: u8,
    pub an: bool,
    #[serde(with = "crate::util::u128s")]
    pub av: u128,
    pub bn: bool,
    #[serde(with = "crate::util::u128s")]
    pub bv: u128,
}

pub struct C19;

const SPECIAL: [u128; 16] = [
    0,
    1,
    2,
    3,
    (1u128 << 64) - 1,
    1u128 << 64,
    (1u128 << 64) + 1,
    (1u128 << 127) - 1,
    1u128 << 127,
    (1u128 << 127) + 1,
    u128::MAX - 1,
    u128::MAX,
    u128::MAX / 2,
    u128::MAX / 3,
    1_000_000,
    1_000_000_000,
];

/// magnitude from (class, raw): special values, uniform, small, 64-bit, powers of two and their neighbours.
/// A flat mapping instead of `prop_oneof` (see ops::op_strategy on unions and the pass-through RNG).
fn mag_of(class: u8, raw: u128) -> u128 {
    match class % 13 {
        0..=3 => SPECIAL[(raw % 16) as usize],
        4..=6 => raw,
        7 | 8 => raw % 1000,
        9 | 10 => raw as u64 as u128,
        11 => 1u128 << (raw % 128),
        _ => (1u128 << (1 + raw % 127)).wrapping_sub((raw >> 8) % 3),
    }
}

fn mk(ctor: u8, neg: bool, v: u128) -> Integer {
    match ctor {
        1 => Integer {
            value: Uint128::new(v),
            negative: neg,
        },
        2 if v <= i128::MAX as u128 => {
            let x = v as i128;
            Integer::from(if neg { -x } else { x })
        }
        _ => {
            if neg {
                Integer::new_negative(v)
            } else {
                Integer::new_positive(v)
            }
        }
    }
}

fn val(i: Integer) -> S {
    S::from_integer(i)
}

fn max_mag() -> Uint256 {
    Uint256::from(u128::MAX)
}

/// consistency of one value produced by the API
fn consistent(x: Integer, what: &str) -> Result<(), Violation> {
    let v = val(x);
    let zero = Integer::zero();
    let s = x.to_string();
    let fail = |c: &str, d: String| Err(Violation::new(c, d).with("op", what).with("zero_result", v.is_zero()));
    if x.is_zero() != v.is_zero() {
        return fail("is_zero", format!("{}: is_zero()={} but value {}", what, x.is_zero(), v));
    }
    if (x == zero) != v.is_zero() {
        return fail("eq_zero", format!("{}: (x == 0) = {} but value is {} (repr {:?})", what, x == zero, v, x));
    }
    if (s == "0") != v.is_zero() {
        return fail("display_zero", format!("{}: prints {:?} but value is {}", what, s, v));
    }
    if x.is_negative() != v.is_neg() {
        return fail("is_negative", format!("{}: is_negative()={} but value is {} (repr {:?})", what, x.is_negative(), v, x));
    }
    if (x < zero) != v.is_neg() {
        return fail("lt_zero", format!("{}: (x < 0) = {} but value is {} (repr {:?})", what, x < zero, v, x));
    }
    if x.is_positive() == v.is_neg() {
        return fail("is_positive", format!("{}: is_positive()={} but value is {}", what, x.is_positive(), v));
    }
    if s.starts_with('-') != v.is_neg() {
        return fail("display_sign", format!("{}: prints {:?} but value is {}", what, s, v));
    }
    if s != v.to_string() {
        return fail("display", format!("{}: prints {:?}, value is {}", what, s, v));
    }
    match Integer::from_str(&s) {
        Ok(y) => {
            if !(y == x) || val(y) != v {
                return fail("parse_roundtrip", format!("{}: from_str({:?}) = {:?} != {:?}", what, s, y, x));
            }
        }
        Err(e) => return fail("parse_roundtrip", format!("{}: from_str({:?}) failed: {}", what, s, e)),
    }
    match serde_json::to_string(&x).ok().and_then(|j| serde_json::from_str::<Integer>(&j).ok()) {
        Some(y) => {
            if !(y == x) || val(y) != v {
                return fail("serde_roundtrip", format!("{}: serde round trip {:?} -> {:?}", what, x, y));
            }
        }
        None => return fail("serde_roundtrip", format!("{}: serde round trip failed for {:?}", what, x)),
    }
    Ok(())
}

impl Property for C19 {
    type Case = Case;
    fn id(&self) -> &'static str {
        "C19"
    }
    fn strategy(&self, _tier: Tier) -> BoxedStrategy<Case> {
        (0u8..3, any::<bool>(), any::<bool>(), 0u8..13, any::<u128>(), 0u8..13, any::<u128>(), 0u8..12)
            .prop_map(|(ctor, an, bn, ca, ra, cb, rb, mode)| {
                let m = mag_of(ca, ra);
                let (av, bv) = match mode {
                    0..=4 => (m, mag_of(cb, rb)),
                    5 | 6 => (m, m),
                    7 => (m, m.wrapping_add(1)),
                    8 => (m, 0),
                    9 => (0, m),
                    10 => (m, u128::MAX - m),
                    _ => (m, (u128::MAX - m).wrapping_add(1)),
                };
                Case { ctor, an, av, bn, bv }
            })
            .boxed()
    }
    fn cases(&self, tier: Tier) -> u32 {
        tier.pick(6_000_000, 120_000_000)
    }
    fn max_shrink_iters(&self) -> u32 {
        2000
    }
    fn rule(&self) -> String {
        "operand pairs over sign x magnitude (special 64/127/128-bit boundary values, equal magnitudes, complements to 2^128-1, zero incl. negative-zero encodings, uniform, small; three constructors); every public operation (checked forms, operators and their compound-assignment forms `+=` `-=` `*=` `/=`) compared with exact 256-bit sign-magnitude arithmetic. Non-trivial: some operation's exact result is zero, or lies within 2 of +-(2^128-1), or the operands have opposite signs and equal magnitude, or an operand is a negative-zero encoding. Distinct by digest of the operand pair.".into()
    }
    fn assumptions(&self) -> Vec<String> {
        vec!["the value of an Integer is (-1)^negative * value; a negative zero encoding denotes 0".into()]
    }
    fn run_case(&self, c: &Case, ctx: &Ctx) -> Outcome {
        let mut out = Outcome::default();
        let a = mk(c.ctor, c.an, c.av);
        let b = mk(c.ctor, c.bn, c.bv);
        let (va, vb) = (val(a), val(b));
        let mut nontrivial = false;
        if (c.an && c.av == 0) || (c.bn && c.bv == 0) {
            nontrivial = true;
            out.count("negzero_operand");
        }
        if c.an != c.bn && c.av == c.bv && c.av != 0 {
            nontrivial = true;
            out.count("opposite_equal");
        }
        let mut viol: Option<Violation> = None;
        let mut check = |r: Result<(), Violation>, out: &mut Outcome| {
            if viol.is_none() {
                if let Err(v) = r {
                    if let Some(v) = ctx.filter(out, v) {
                        viol = Some(v);
                    }
                }
            }
        };
        // operands themselves
        check(consistent(a, "operand"), &mut out);
        check(consistent(b, "operand"), &mut out);
        // binary checked ops + operators
        type Chk = fn(Integer, Integer) -> Option<Integer>;
        type Opr = fn(Integer, Integer) -> Integer;
        let ops: [(&str, Chk, Opr, fn(&S, &S) -> Option<S>); 4] = [
            ("add", |x, y| x.checked_add(y).ok(), |x, y| x + y, |x, y| Some(x.add(y))),
            ("sub", |x, y| x.checked_sub(y).ok(), |x, y| x - y, |x, y| Some(x.sub(y))),
            ("mul", |x, y| x.checked_mul(y).ok(), |x, y| x * y, |x, y| Some(x.mul(y))),
            (
                "div",
                |x, y| x.checked_div(y).ok(),
                |x, y| x / y,
                |x, y| if y.is_zero() { None } else { Some(x.div_trunc(y)) },
            ),
        ];
        for (name, chk, opr, exact) in ops.iter() {
            let e = exact(&va, &vb);
            let representable = e.map(|e| e.mag <= max_mag()).unwrap_or(false);
            if let Some(e) = &e {
                if e.is_zero() {
                    nontrivial = true;
                    out.count(&format!("{}.zero_result", name));
                }
                let hi = max_mag();
                if e.mag + Uint256::from(2u8) >= hi && e.mag <= hi + Uint256::from(2u8) {
                    nontrivial = true;
                    out.count(&format!("{}.boundary", name));
                }
            }
            let got = catch_unwind(AssertUnwindSafe(|| chk(a, b)));
            let got = match got {
                Ok(g) => g,
                Err(_) => {
                    check(
                        Err(Violation::new("checked_panics", format!("checked_{}({:?},{:?}) panicked", name, a, b)).with("op", name)),
                        &mut out,
                    );
                    continue;
                }
            };
            match (got, representable) {
                (Some(v), true) => {
                    let e = e.unwrap();
                    if val(v) != e {
                        check(
                            Err(Violation::new("checked_value", format!("checked_{}({},{}) = {} expected {}", name, va, vb, val(v), e)).with("op", name)),
                            &mut out,
                        );
                    }
                    check(consistent(v, &format!("checked_{}", name)), &mut out);
                    // unchecked form must agree
                    match catch_unwind(AssertUnwindSafe(|| opr(a, b))) {
                        Ok(w) => {
                            if val(w) != e {
                                check(
                                    Err(Violation::new("operator_value", format!("{} {} {} = {} expected {}", va, name, vb, val(w), e)).with("op", name)),
                                    &mut out,
                                );
                            }
                            if !(w == v) {
                                check(
                                    Err(Violation::new("operator_vs_checked", format!("operator {} gives {:?}, checked form {:?} (not ==)", name, w, v))
                                        .with("op", name)
                                        .with("zero_result", e.is_zero())),
                                    &mut out,
                                );
                            }
                            check(consistent(w, &format!("operator_{}", name)), &mut out);
                        }
                        Err(_) => check(
                            Err(Violation::new("operator_panics", format!("{:?} {} {:?} panicked although the checked form succeeds", a, name, b)).with("op", name)),
                            &mut out,
                        ),
                    }
                    // the compound-assignment form of the same operation (`+=`, `-=`, `*=`, `/=`)
                    let asg: Opr = match *name {
                        "add" => |mut x, y| {
                            x += y;
                            x
                        },
                        "sub" => |mut x, y| {
                            x -= y;
                            x
                        },
                        "mul" => |mut x, y| {
                            x *= y;
                            x
                        },
                        _ => |mut x, y| {
                            x /= y;
                            x
                        },
                    };
                    match catch_unwind(AssertUnwindSafe(|| asg(a, b))) {
                        Ok(w) => {
                            out.count("assign_forms");
                            if val(w) != e {
                                check(
                                    Err(Violation::new("assign_value", format!("{} {}= {} gives {} expected {}", va, name, vb, val(w), e)).with("op", name)),
                                    &mut out,
                                );
                            }
                            check(consistent(w, &format!("assign_{}", name)), &mut out);
                        }
                        Err(_) => check(
                            Err(Violation::new("operator_panics", format!("{:?} {}= {:?} panicked although the checked form succeeds", a, name, b)).with("op", name).with("assign", true)),
                            &mut out,
                        ),
                    }
                }
                (Some(v), false) => check(
                    Err(Violation::new("checked_should_fail", format!("checked_{}({},{}) = {:?} but exact result {:?} is not representable", name, va, vb, v, e.map(|e| e.to_string()))).with("op", name)),
                    &mut out,
                ),
                (None, true) => check(
                    Err(Violation::new("checked_should_succeed", format!("checked_{}({},{}) failed but exact result {} is representable", name, va, vb, e.unwrap())).with("op", name)),
                    &mut out,
                ),
                (None, false) => {
                    out.count(&format!("{}.overflow_or_div0", name));
                }
            }
        }
        // unary
        for (name, x, vx) in [("a", a, va), ("b", b, vb)] {
            let inv = x.invert_sign();
            if val(inv) != vx.negate() {
                check(Err(Violation::new("invert_value", format!("invert_sign({}) = {}", vx, val(inv))).with("op", "invert_sign")), &mut out);
            }
            check(consistent(inv, "invert_sign"), &mut out);
            let ab = x.abs();
            if val(ab) != vx.abs() {
                check(Err(Violation::new("abs_value", format!("abs({}) = {}", vx, val(ab))).with("op", "abs")), &mut out);
            }
            check(consistent(ab, "abs"), &mut out);
            let _ = name;
        }
        // comparison
        let ord = va.cmp(&vb);
        if a.cmp(&b) != ord {
            check(Err(Violation::new("cmp", format!("cmp({:?},{:?}) = {:?}, integers say {:?}", a, b, a.cmp(&b), ord)).with("op", "cmp").with("zero_result", va.is_zero() && vb.is_zero())), &mut out);
        }
        if a.partial_cmp(&b) != Some(ord) {
            check(Err(Violation::new("partial_cmp", format!("partial_cmp({:?},{:?}) = {:?}, integers say {:?}", a, b, a.partial_cmp(&b), ord)).with("op", "cmp").with("zero_result", va.is_zero() && vb.is_zero())), &mut out);
        }
        if (a == b) != (ord == Ordering::Equal) {
            check(Err(Violation::new("eq", format!("({:?} == {:?}) = {}, integers say {:?}", a, b, a == b, ord)).with("op", "eq").with("zero_result", va.is_zero() && vb.is_zero())), &mut out);
        }
        if (a < b) != (ord == Ordering::Less) || (a > b) != (ord == Ordering::Greater) {
            check(Err(Violation::new("lt_gt", format!("{:?} vs {:?}: < {} > {} integers say {:?}", a, b, a < b, a > b, ord)).with("op", "cmp").with("zero_result", va.is_zero() && vb.is_zero())), &mut out);
        }
        out.nontrivial = nontrivial;
        out.violation = viol;
        if ctx.want_summary {
            out.summary = Some(json!({"a": va.to_string(), "b": vb.to_string()}));
        }
        out
    }
}
