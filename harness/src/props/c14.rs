//! C14 — pause, closed markets and emergency shutdown stop trading.
use super::histprop::HistProp;
use crate::hist::{observe, Act, Interp, Monitor, Obs, Step};
use crate::ops::{CfgProfile, Weights};
use crate::run::{Outcome, Violation};
use crate::world::World;
use cosmwasm_std::Addr;
use margined_perp::margined_engine as eng;
use margined_perp::margined_insurance_fund as fund;
use serde_json::json;

#[derive(Default)]
pub struct Mon {
    /// harness model of the registry: vAMMs registered at deployment plus successful AddVamm minus successful RemoveVamm
    reg_model: Option<std::collections::BTreeSet<String>>,
    dump0: Option<Vec<(Vec<u8>, Vec<u8>)>>,
    twin: Option<(bool, Obs)>,
    interesting: u64,
}

fn registry_invariants(w: &World, o: &Obs) -> Option<Violation> {
    let list: Vec<Addr> = w
        .query::<fund::AllVammResponse, _>(&w.fund, &fund::QueryMsg::GetAllVamm { limit: None })
        .map(|r| r.vamm_list)
        .unwrap_or_default();
    if list.len() > 3 {
        return Some(Violation::new("registry_too_large", format!("GetAllVamm returns {} vAMMs", list.len())));
    }
    for (i, a) in list.iter().enumerate() {
        if list[..i].contains(a) {
            return Some(Violation::new("registry_duplicate", format!("vAMM {} is registered twice", a)));
        }
    }
    let mut all: Vec<Addr> = w.vamms.clone();
    if let Some(a) = &w.alien_vamm {
        all.push(a.clone());
    }
    for a in &all {
        let is = w.is_registered(a);
        if is != list.contains(a) {
            return Some(Violation::new(
                "membership_query_disagrees",
                format!("IsVamm({}) = {} but GetAllVamm {} it", a, is, if list.contains(a) { "lists" } else { "does not list" }),
            ));
        }
    }
    if let Ok(st) = w.query::<fund::AllVammStatusResponse, _>(&w.fund, &fund::QueryMsg::GetAllVammStatus { limit: None }) {
        for (a, open) in st.vamm_list_status {
            if let Some(i) = w.vamms.iter().position(|x| *x == a) {
                if o.v[i].state.open != open {
                    return Some(Violation::new("status_query_disagrees", format!("GetAllVammStatus says open={} for {} but its State.open = {}", open, a, o.v[i].state.open)));
                }
            }
        }
    }
    None
}

impl Monitor for Mon {
    fn before(&mut self, it: &mut Interp, act: &Act, pre: &Obs, _out: &mut Outcome) -> Option<Violation> {
        self.dump0 = None;
        self.twin = None;
        if !pre.paused {
            return None;
        }
        match act {
            Act::Open { .. } | Act::Close { .. } | Act::Deposit { .. } | Act::Withdraw { .. } => {
                self.dump0 = Some(it.w.dump());
            }
            Act::Liquidate { .. } | Act::PayFunding { .. } => {
                // unpaused twin of the same pre-state
                let snap = it.w.snapshot();
                let pauser = it.w.pauser.clone();
                let engine = it.w.engine.clone();
                let r = it.w.exec(&pauser, &engine, &eng::ExecuteMsg::SetPause { pause: false }, &[], None);
                if r.ok {
                    it.w.paused = false;
                    let r2 = it.exec_act(act);
                    let mut o = observe(&it.w);
                    o.paused = true;
                    self.twin = Some((r2.ok, o));
                }
                it.w.restore(&snap);
            }
            _ => {}
        }
        None
    }
    fn after(&mut self, w: &World, s: &Step, out: &mut Outcome) -> Option<Violation> {
        // registry model
        let model = self.reg_model.get_or_insert_with(|| (0..w.vamms.len()).filter(|i| s.pre.v[*i].registered).map(|i| w.vamms[i].to_string()).collect());
        if let Act::FundAdmin { msg, .. } = s.act {
            if s.res.ok {
                match msg {
                    fund::ExecuteMsg::AddVamm { vamm } => {
                        model.insert(vamm.clone());
                    }
                    fund::ExecuteMsg::RemoveVamm { vamm } => {
                        model.remove(vamm);
                    }
                    _ => {}
                }
            }
        }
        let listed: std::collections::BTreeSet<String> = w
            .query::<fund::AllVammResponse, _>(&w.fund, &fund::QueryMsg::GetAllVamm { limit: None })
            .map(|r| r.vamm_list.into_iter().map(|a| a.to_string()).collect())
            .unwrap_or_default();
        if listed != *model {
            return Some(
                Violation::new(
                    "registry_differs_from_add_remove_history",
                    format!("after {} (ok={}): GetAllVamm = {:?} but the successful AddVamm / RemoveVamm calls so far leave {:?}", s.act.name(), s.res.ok, listed, model),
                )
                .with("act", s.act.name()),
            );
        }
        if let Some(v) = registry_invariants(w, s.post) {
            return Some(v.with("act", s.act.name()));
        }
        out.count("registry_checks");
        let has_pos = |v: usize, t: usize| s.pre.pos[v][t].as_ref().map(|p| !p.size.is_zero()).unwrap_or(false);
        // ---- pause
        if s.pre.paused {
            match s.act {
                Act::Open { .. } | Act::Close { .. } | Act::Deposit { .. } | Act::Withdraw { .. } => {
                    out.count("paused_trading_attempts");
                    if let Some((v, t)) = s.act.subject() {
                        if has_pos(v, t) {
                            self.interesting += 1;
                        }
                    }
                    if s.res.ok {
                        return Some(Violation::new("trading_while_paused", format!("{} succeeded while the engine is paused", s.act.name())).with("act", s.act.name()));
                    }
                    if let Some(d0) = &self.dump0 {
                        if *d0 != w.dump() {
                            return Some(Violation::new("paused_attempt_changed_state", format!("refused {} changed storage while paused", s.act.name())).with("act", s.act.name()));
                        }
                    }
                }
                Act::Liquidate { .. } | Act::PayFunding { .. } => {
                    if let Some((twin_ok, twin_obs)) = &self.twin {
                        out.count("paused_liveness_checks");
                        if *twin_ok {
                            self.interesting += 1;
                            out.count("liquidate_or_funding_while_paused");
                        }
                        if *twin_ok != s.res.ok || twin_obs != s.post {
                            return Some(
                                Violation::new(
                                    "pause_changes_liquidation_or_funding",
                                    format!("{} while paused: ok={} ({}), on the unpaused twin of the same state ok={}; post-states equal: {}", s.act.name(), s.res.ok, s.res.err, twin_ok, twin_obs == s.post),
                                )
                                .with("act", s.act.name()),
                            );
                        }
                    }
                }
                _ => {}
            }
        }
        // ---- closed / unregistered markets
        if let Some(v) = s.act.vamm() {
            let closed = !s.pre.v[v].state.open;
            let unreg = !s.pre.v[v].registered;
            let kind = s.act.name();
            let is_trade = matches!(s.act, Act::Open { .. } | Act::Close { .. } | Act::Liquidate { .. } | Act::Withdraw { .. } | Act::PayFunding { .. });
            if is_trade && (closed || unreg) {
                out.count("attempts_on_closed_or_unregistered");
                if let Some((vv, t)) = s.act.subject() {
                    if has_pos(vv, t) {
                        self.interesting += 1;
                        out.count("blocked_attempt_on_existing_position");
                    }
                }
            }
            if closed && is_trade && s.res.ok {
                return Some(Violation::new("trade_on_closed_vamm", format!("{} succeeded on a closed vAMM", kind)).with("act", kind));
            }
            if unreg && is_trade && !matches!(s.act, Act::Close { .. }) && s.res.ok {
                return Some(Violation::new("trade_on_unregistered_vamm", format!("{} succeeded on a vAMM that is not registered with the insurance fund", kind)).with("act", kind));
            }
        }
        // ---- shutdown
        if let Act::FundAdmin { msg: fund::ExecuteMsg::ShutdownVamms {}, sender } = s.act {
            if *sender == w.owner {
                out.count("shutdown_calls");
                let all_reg: Vec<usize> = (0..w.vamms.len()).filter(|i| s.pre.v[*i].registered).collect();
                // a registered vAMM that neither names the fund as its insurance fund nor is owned by it cannot be closed by the fund
                // (its owner unplugged it): the statement can only be met for the vAMMs the fund has authority over - but for those
                // it must be met whatever the others do
                let reg: Vec<usize> = all_reg.iter().copied().filter(|i| s.pre.v[*i].cfg.insurance_fund == w.fund || w.vamm_admin(*i) == w.fund.as_str()).collect();
                if reg.len() < all_reg.len() {
                    out.count("shutdown_with_a_vamm_beyond_the_funds_authority");
                }
                let closed_before = reg.iter().filter(|i| !s.pre.v[**i].state.open).count();
                if closed_before > 0 && closed_before < reg.len() {
                    self.interesting += 1;
                    out.count("shutdown_with_proper_subset_closed");
                }
                for i in &reg {
                    if s.post.v[*i].state.open {
                        return Some(
                            Violation::new(
                                "shutdown_left_vamm_open",
                                format!(
                                    "ShutdownVamms by the fund's owner (ok={}, {}) left registered vAMM {} open; {} of {} registered vAMMs were already closed",
                                    s.res.ok, s.res.err, i, closed_before, reg.len()
                                ),
                            )
                            .with("ok", s.res.ok)
                            .with("some_already_closed", closed_before > 0),
                        );
                    }
                }
            }
        }
        None
    }
    fn end(&mut self, _w: &World, out: &mut Outcome) {
        out.nontrivial = self.interesting >= 1;
        out.summary = Some(json!({"interesting_events": self.interesting}));
    }
}

pub fn prop() -> HistProp {
    let mut p = CfgProfile::general();
    p.max_vamms = 4;
    p.odd_vamms = true;
    p.alien = true;
    p.fluct = false;
    // one deployment in three hands its vAMMs to the insurance fund (the fund is then their admin and may close them whatever
    // insurance fund they name)
    p.fund_owned = true;
    let mut w = Weights::trading();
    w.pause = 7;
    w.setopen = 7;
    w.register = 7;
    w.shutdown = 4;
    w.alien = 2;
    w.squeeze = 5;
    w.liq_weakest = 8;
    // a vAMM owner may point the vAMM's insurance-fund setting at a foreign registry that lists it too
    w.rewire = 4;
    w.paused_liq = 2;
    // the pauser role changes hands: to a trading account and back (whoever paused is stopped like everybody else)
    w.handover = 2;
    HistProp {
        id: "C14",
        level: "exploration",
        profile: p,
        weights: w,
        min_ops: 6,
        max_ops: (40, 100),
        cases: (10_000, 300_000),
        make: || Box::new(Mon::default()),
        rule: "deployments with 1-4 vAMMs (some initially closed / unregistered, a fourth beyond the registry capacity, one with foreign decimals) and histories mixing every engine operation with SetPause, SetOpen, AddVamm/RemoveVamm and ShutdownVamms. Paused (= after a successful SetPause{true} not yet reverted): Open/Close/Deposit/Withdraw must fail with the raw storage dump unchanged; Liquidate/PayFunding must have the same outcome and the same observable post-state as on an unpaused what-if twin of the same pre-state. Closed vAMM: no Open/Close/Liquidate/Withdraw/PayFunding succeeds; unregistered vAMM: no Open/Liquidate/Withdraw/PayFunding succeeds. After every step: GetAllVamm equals the harness's model of the registry (deployment + successful AddVamm - successful RemoveVamm), has no duplicates and <= 3 entries, IsVamm agrees with it for every vAMM ever created, GetAllVammStatus agrees with each State.open. After ShutdownVamms by the fund's owner (whether it returned Ok or Err) every registered vAMM is closed. Non-trivial: a blocked operation on a position that exists, or a Liquidate/PayFunding that succeeds while paused, or a shutdown with a non-empty proper subset of the registered vAMMs already closed. Distinct by digest of (cfg, ops).",
        assumptions: &["'paused' is the harness's model of successful SetPause calls (the engine exposes no pause query)"],
        eval_counter: None,
    }
}
