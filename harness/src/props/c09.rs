//! C09 — privileged operations are restricted to their role in all five contracts.
use crate::hist::{observe, Interp};
use crate::ops::{op_strategy, world_cfg_strategy, CfgProfile, Op, Weights};
use crate::run::{idx, Ctx, Outcome, Property, Tier, Violation};
use crate::world::{u, World, WorldCfg, NATIVE_DENOM};
use cosmwasm_std::Addr;
use margined_common::asset::AssetInfo;
use margined_perp::margined_engine as eng;
use margined_perp::margined_fee_pool as fp;
use margined_perp::margined_insurance_fund as fund;
use margined_perp::margined_pricefeed as feed;
use margined_perp::margined_vamm as vamm;
use proptest::prelude::*;
use proptest::strategy::BoxedStrategy;
use serde::{Deserialize, Serialize};
use serde_json::json;

#[derive(Clone, Debug, Serialize, Deserialize)]
pub struct Transfer {
    /// 0 vAMM owner, 1 engine owner, 2 pauser, 3 fund owner, 4 fee-pool owner, 5 feed owner
    pub role: u8,
    pub v: u8,
    pub to: u16,
}

#[derive(Clone, Debug, Serialize, Deserialize)]
pub struct Case {
    pub cfg: WorldCfg,
    pub prelude: Vec<Op>,
    pub transfers: Vec<Transfer>,
}

pub struct C09;

const CANDIDATES: [&str; 6] = ["newadmin", "alice", "stranger", "owner", "pauser", "secondadmin"];

#[derive(Clone, Debug)]
struct Roles {
    vamm_owner: Vec<String>,
    engine_owner: String,
    pauser: String,
    fund_owner: String,
    pool_owner: String,
    feed_owner: Vec<String>,
    /// the extra vAMM: its owner, and whoever was later given its margin-engine / insurance-fund role (nobody at first)
    orphan_owner: String,
    orphan_engine: Option<String>,
    orphan_fund: Option<String>,
}

#[derive(Clone, Debug)]
enum Target {
    Orphan,
    Vamm(usize),
    Engine,
    Fund,
    Pool,
    Feed(usize),
}

#[derive(Clone, Debug)]
struct Entry {
    name: &'static str,
    target: Target,
    msg: serde_json::Value,
    /// addresses that may succeed
    allowed: Vec<String>,
    /// true if, in this state, nothing but authorisation can make the call fail
    must_succeed_for_holder: bool,
    /// what-if time shift applied before the call (SettleFunding)
    at_time: Option<u64>,
}

fn addr_of(w: &World, t: &Target) -> Addr {
    match t {
        Target::Orphan => w.orphan_vamm.clone().expect("orphan vamm"),
        Target::Vamm(v) => w.vamms[*v].clone(),
        Target::Engine => w.engine.clone(),
        Target::Fund => w.fund.clone(),
        Target::Pool => w.fee_pool.clone(),
        Target::Feed(v) => w.oracles[*v].clone(),
    }
}

fn jv<T: Serialize>(m: &T) -> serde_json::Value {
    serde_json::to_value(m).unwrap()
}

fn entries(w: &World, roles: &Roles) -> Vec<Entry> {
    let d = w.d;
    let obs = observe(w);
    let mut es = vec![];
    let collateral = match &w.token {
        Some(t) => t.to_string(),
        None => NATIVE_DENOM.to_string(),
    };
    let asset = match &w.token {
        Some(t) => AssetInfo::Token { contract_addr: t.clone() },
        None => AssetInfo::NativeToken { denom: NATIVE_DENOM.to_string() },
    };
    for v in 0..w.vamms.len() {
        let st = &obs.v[v].state;
        let open = st.open;
        // the vAMM's margin-engine / insurance-fund roles are whatever its owner configured last (the prelude may re-point them)
        let engine = vec![obs.v[v].cfg.margin_engine.to_string()];
        let vfund = obs.v[v].cfg.insurance_fund.to_string();
        // "nothing but authorisation can fail": the vAMM's own quote for the same arguments must answer (deep 12-decimal pools
        // overflow the reserve product, which refuses the engine's swap as well)
        let in_ok = w
            .query::<cosmwasm_std::Uint128, _>(&w.vamms[v], &vamm::QueryMsg::InputAmount { direction: vamm::Direction::AddToAmm, amount: u(st.quote_asset_reserve.u128() / 1000 + 1) })
            .is_ok()
            && w.query::<cosmwasm_std::Uint128, _>(&w.vamms[v], &vamm::QueryMsg::SpotPrice {}).is_ok();
        let out_ok = w
            .query::<cosmwasm_std::Uint128, _>(&w.vamms[v], &vamm::QueryMsg::OutputAmount { direction: vamm::Direction::AddToAmm, amount: u(st.base_asset_reserve.u128() / 1000 + 1) })
            .is_ok()
            && w.query::<cosmwasm_std::Uint128, _>(&w.vamms[v], &vamm::QueryMsg::SpotPrice {}).is_ok();
        es.push(Entry {
            name: "vamm.SwapInput",
            target: Target::Vamm(v),
            msg: jv(&vamm::ExecuteMsg::SwapInput {
                direction: vamm::Direction::AddToAmm,
                quote_asset_amount: u(st.quote_asset_reserve.u128() / 1000 + 1),
                base_asset_limit: u(0),
                can_go_over_fluctuation: true,
            }),
            allowed: engine.clone(),
            must_succeed_for_holder: open && in_ok && obs.v[v].cfg.fluctuation_limit_ratio.is_zero(),
            at_time: None,
        });
        es.push(Entry {
            name: "vamm.SwapOutput",
            target: Target::Vamm(v),
            msg: jv(&vamm::ExecuteMsg::SwapOutput {
                direction: vamm::Direction::AddToAmm,
                base_asset_amount: u(st.base_asset_reserve.u128() / 1000 + 1),
                quote_asset_limit: u(0),
            }),
            allowed: engine.clone(),
            must_succeed_for_holder: open && out_ok && obs.v[v].cfg.fluctuation_limit_ratio.is_zero(),
            at_time: None,
        });
        // degenerate arguments: an authorisation test must not depend on the size of the request
        es.push(Entry {
            name: "vamm.SwapInput#zero",
            target: Target::Vamm(v),
            msg: jv(&vamm::ExecuteMsg::SwapInput { direction: vamm::Direction::RemoveFromAmm, quote_asset_amount: u(0), base_asset_limit: u(0), can_go_over_fluctuation: false }),
            allowed: engine.clone(),
            must_succeed_for_holder: false,
            at_time: None,
        });
        es.push(Entry {
            name: "vamm.SwapOutput#zero",
            target: Target::Vamm(v),
            msg: jv(&vamm::ExecuteMsg::SwapOutput { direction: vamm::Direction::RemoveFromAmm, base_asset_amount: u(0), quote_asset_limit: u(0) }),
            allowed: engine.clone(),
            must_succeed_for_holder: false,
            at_time: None,
        });
        es.push(Entry {
            name: "vamm.SwapOutput#huge",
            target: Target::Vamm(v),
            msg: jv(&vamm::ExecuteMsg::SwapOutput { direction: vamm::Direction::RemoveFromAmm, base_asset_amount: u(u128::MAX / 2), quote_asset_limit: u(1) }),
            allowed: engine.clone(),
            must_succeed_for_holder: false,
            at_time: None,
        });
        es.push(Entry {
            name: "vamm.SettleFunding",
            target: Target::Vamm(v),
            msg: jv(&vamm::ExecuteMsg::SettleFunding {}),
            allowed: engine,
            must_succeed_for_holder: false,
            at_time: Some(st.next_funding_time.max(obs.time) + 1),
        });
        es.push(Entry {
            name: "vamm.UpdateConfig",
            target: Target::Vamm(v),
            msg: jv(&vamm::ExecuteMsg::UpdateConfig {
                base_asset_holding_cap: None,
                open_interest_notional_cap: None,
                toll_ratio: Some(u(d / 1000)),
                spread_ratio: None,
                fluctuation_limit_ratio: None,
                margin_engine: None,
                insurance_fund: None,
                pricefeed: None,
                spot_price_twap_interval: None,
            }),
            allowed: vec![roles.vamm_owner[v].clone()],
            must_succeed_for_holder: true,
            at_time: None,
        });
        es.push(Entry {
            name: "vamm.UpdateOwner",
            target: Target::Vamm(v),
            msg: jv(&vamm::ExecuteMsg::UpdateOwner { owner: "thirdadmin".into() }),
            allowed: vec![roles.vamm_owner[v].clone()],
            must_succeed_for_holder: true,
            at_time: None,
        });
        es.push(Entry {
            name: "vamm.SetOpen",
            target: Target::Vamm(v),
            msg: jv(&vamm::ExecuteMsg::SetOpen { open: !open }),
            allowed: vec![roles.vamm_owner[v].clone(), vfund.clone()],
            must_succeed_for_holder: true,
            at_time: None,
        });
        // repeating the current status is refused for everybody on the unchanged tree; what matters here is that an account
        // without the role is never accepted, whatever value it sends
        es.push(Entry {
            name: "vamm.SetOpen#same",
            target: Target::Vamm(v),
            msg: jv(&vamm::ExecuteMsg::SetOpen { open }),
            allowed: vec![roles.vamm_owner[v].clone(), vfund.clone()],
            must_succeed_for_holder: false,
            at_time: Some(obs.time + 1800),
        });
        // price feed of this vAMM
        es.push(Entry {
            name: "feed.AppendPrice",
            target: Target::Feed(v),
            msg: jv(&feed::ExecuteMsg::AppendPrice { key: w.keys[v].clone(), price: u(obs.v[v].spot.max(1)), timestamp: obs.time }),
            allowed: vec![roles.feed_owner[v].clone()],
            must_succeed_for_holder: true,
            at_time: None,
        });
        es.push(Entry {
            name: "feed.AppendMultiplePrice",
            target: Target::Feed(v),
            msg: jv(&feed::ExecuteMsg::AppendMultiplePrice { key: w.keys[v].clone(), prices: vec![u(obs.v[v].spot.max(1))], timestamps: vec![obs.time] }),
            allowed: vec![roles.feed_owner[v].clone()],
            must_succeed_for_holder: true,
            at_time: None,
        });
        // a key nobody has written yet: the first round of a key is as privileged as any later one
        es.push(Entry {
            name: "feed.AppendPrice#newkey",
            target: Target::Feed(v),
            msg: jv(&feed::ExecuteMsg::AppendPrice { key: "NEVERWRITTEN".into(), price: u(obs.v[v].spot.max(1)), timestamp: obs.time }),
            allowed: vec![roles.feed_owner[v].clone()],
            must_succeed_for_holder: true,
            at_time: None,
        });
        es.push(Entry {
            name: "feed.AppendMultiplePrice#newkey",
            target: Target::Feed(v),
            msg: jv(&feed::ExecuteMsg::AppendMultiplePrice { key: "NEVERWRITTEN2".into(), prices: vec![u(obs.v[v].spot.max(1)), u(obs.v[v].spot.max(1) + 1)], timestamps: vec![obs.time.saturating_sub(1), obs.time] }),
            allowed: vec![roles.feed_owner[v].clone()],
            must_succeed_for_holder: true,
            at_time: None,
        });
        es.push(Entry {
            name: "feed.UpdateOwner",
            target: Target::Feed(v),
            msg: jv(&feed::ExecuteMsg::UpdateOwner { owner: "thirdadmin".into() }),
            allowed: vec![roles.feed_owner[v].clone()],
            must_succeed_for_holder: true,
            at_time: None,
        });
    }
    // a vAMM that was opened before any margin engine / insurance fund was configured: nobody holds those roles
    if let Some(orphan) = &w.orphan_vamm {
        let st: vamm::StateResponse = w.query(orphan, &vamm::QueryMsg::State {}).expect("orphan state");
        let nobody: Vec<String> = roles.orphan_engine.iter().cloned().collect();
        es.push(Entry {
            name: "orphan.SwapInput",
            target: Target::Orphan,
            msg: jv(&vamm::ExecuteMsg::SwapInput { direction: vamm::Direction::AddToAmm, quote_asset_amount: u(d), base_asset_limit: u(0), can_go_over_fluctuation: true }),
            allowed: nobody.clone(),
            must_succeed_for_holder: false,
            at_time: None,
        });
        es.push(Entry {
            name: "orphan.SwapOutput",
            target: Target::Orphan,
            msg: jv(&vamm::ExecuteMsg::SwapOutput { direction: vamm::Direction::AddToAmm, base_asset_amount: u(d / 10), quote_asset_limit: u(0) }),
            allowed: nobody.clone(),
            must_succeed_for_holder: false,
            at_time: None,
        });
        es.push(Entry {
            name: "orphan.SwapOutput#zero",
            target: Target::Orphan,
            msg: jv(&vamm::ExecuteMsg::SwapOutput { direction: vamm::Direction::AddToAmm, base_asset_amount: u(0), quote_asset_limit: u(0) }),
            allowed: nobody.clone(),
            must_succeed_for_holder: false,
            at_time: None,
        });
        es.push(Entry {
            name: "orphan.SwapInput#zero",
            target: Target::Orphan,
            msg: jv(&vamm::ExecuteMsg::SwapInput { direction: vamm::Direction::AddToAmm, quote_asset_amount: u(0), base_asset_limit: u(0), can_go_over_fluctuation: true }),
            allowed: nobody.clone(),
            must_succeed_for_holder: false,
            at_time: None,
        });
        es.push(Entry {
            name: "orphan.SettleFunding",
            target: Target::Orphan,
            msg: jv(&vamm::ExecuteMsg::SettleFunding {}),
            allowed: nobody,
            must_succeed_for_holder: false,
            at_time: Some(st.next_funding_time.max(obs.time) + 1),
        });
        es.push(Entry {
            name: "orphan.SetOpen",
            target: Target::Orphan,
            msg: jv(&vamm::ExecuteMsg::SetOpen { open: !st.open }),
            allowed: std::iter::once(roles.orphan_owner.clone()).chain(roles.orphan_fund.iter().cloned()).collect(),
            must_succeed_for_holder: true,
            at_time: None,
        });
        es.push(Entry {
            name: "orphan.UpdateOwner",
            target: Target::Orphan,
            msg: jv(&vamm::ExecuteMsg::UpdateOwner { owner: "thirdadmin".into() }),
            allowed: vec![roles.orphan_owner.clone()],
            must_succeed_for_holder: true,
            at_time: None,
        });
        es.push(Entry {
            name: "orphan.UpdateConfig",
            target: Target::Orphan,
            msg: jv(&vamm::ExecuteMsg::UpdateConfig {
                base_asset_holding_cap: None,
                open_interest_notional_cap: None,
                toll_ratio: None,
                spread_ratio: None,
                fluctuation_limit_ratio: None,
                margin_engine: Some("thirdadmin".into()),
                insurance_fund: Some("thirdadmin".into()),
                pricefeed: None,
                spot_price_twap_interval: None,
            }),
            allowed: vec![roles.orphan_owner.clone()],
            must_succeed_for_holder: true,
            at_time: None,
        });
    }
    // engine
    es.push(Entry {
        name: "engine.UpdateConfig",
        target: Target::Engine,
        msg: jv(&eng::ExecuteMsg::UpdateConfig {
            owner: None,
            insurance_fund: None,
            fee_pool: None,
            initial_margin_ratio: None,
            maintenance_margin_ratio: None,
            partial_liquidation_ratio: None,
            liquidation_fee: Some(obs.ecfg.liquidation_fee),
        }),
        allowed: vec![roles.engine_owner.clone()],
        must_succeed_for_holder: true,
        at_time: None,
    });
    es.push(Entry {
        name: "engine.UpdateConfig{owner}",
        target: Target::Engine,
        msg: jv(&eng::ExecuteMsg::UpdateConfig {
            owner: Some("thirdadmin".into()),
            insurance_fund: None,
            fee_pool: None,
            initial_margin_ratio: None,
            maintenance_margin_ratio: None,
            partial_liquidation_ratio: None,
            liquidation_fee: None,
        }),
        allowed: vec![roles.engine_owner.clone()],
        must_succeed_for_holder: true,
        at_time: None,
    });
    es.push(Entry {
        name: "engine.SetPause",
        target: Target::Engine,
        msg: jv(&eng::ExecuteMsg::SetPause { pause: !w.paused }),
        allowed: vec![roles.pauser.clone()],
        must_succeed_for_holder: true,
        at_time: None,
    });
    es.push(Entry {
        name: "engine.UpdatePauser",
        target: Target::Engine,
        msg: jv(&eng::ExecuteMsg::UpdatePauser { pauser: "thirdadmin".into() }),
        allowed: vec![roles.pauser.clone()],
        must_succeed_for_holder: true,
        at_time: None,
    });
    let wl: Vec<String> = w
        .query::<cw_controllers_hooks::HooksResponse, _>(&w.engine, &eng::QueryMsg::GetWhitelist {})
        .map(|h| h.hooks)
        .unwrap_or_default();
    es.push(Entry {
        name: "engine.AddWhitelist",
        target: Target::Engine,
        msg: jv(&eng::ExecuteMsg::AddWhitelist { address: "stranger".into() }),
        allowed: vec![roles.pauser.clone()],
        must_succeed_for_holder: !wl.contains(&"stranger".to_string()),
        at_time: None,
    });
    es.push(Entry {
        name: "engine.RemoveWhitelist",
        target: Target::Engine,
        msg: jv(&eng::ExecuteMsg::RemoveWhitelist { address: wl.first().cloned().unwrap_or_else(|| "stranger".into()) }),
        allowed: vec![roles.pauser.clone()],
        must_succeed_for_holder: !wl.is_empty(),
        at_time: None,
    });
    // insurance fund
    es.push(Entry {
        name: "fund.Withdraw",
        target: Target::Fund,
        msg: jv(&fund::ExecuteMsg::Withdraw { token: asset.clone(), amount: u(1) }),
        allowed: vec![w.engine.to_string()],
        must_succeed_for_holder: obs.bal[w.idx_fund()] >= 1,
        at_time: None,
    });
    es.push(Entry {
        name: "fund.Withdraw#zero",
        target: Target::Fund,
        msg: jv(&fund::ExecuteMsg::Withdraw { token: asset.clone(), amount: u(0) }),
        allowed: vec![w.engine.to_string()],
        must_succeed_for_holder: false,
        at_time: None,
    });
    es.push(Entry {
        name: "fund.Withdraw#all",
        target: Target::Fund,
        msg: jv(&fund::ExecuteMsg::Withdraw { token: asset, amount: u(obs.bal[w.idx_fund()]) }),
        allowed: vec![w.engine.to_string()],
        must_succeed_for_holder: obs.bal[w.idx_fund()] >= 1,
        at_time: None,
    });
    let reg: Vec<usize> = (0..w.vamms.len()).filter(|v| obs.v[*v].registered).collect();
    let unreg: Vec<usize> = (0..w.vamms.len()).filter(|v| !obs.v[*v].registered).collect();
    es.push(Entry {
        name: "fund.AddVamm",
        target: Target::Fund,
        msg: jv(&fund::ExecuteMsg::AddVamm { vamm: w.vamms[*unreg.first().unwrap_or(&0)].to_string() }),
        allowed: vec![roles.fund_owner.clone()],
        must_succeed_for_holder: !unreg.is_empty() && reg.len() < 3,
        at_time: None,
    });
    es.push(Entry {
        name: "fund.RemoveVamm",
        target: Target::Fund,
        msg: jv(&fund::ExecuteMsg::RemoveVamm { vamm: w.vamms[*reg.first().unwrap_or(&0)].to_string() }),
        allowed: vec![roles.fund_owner.clone()],
        must_succeed_for_holder: !reg.is_empty(),
        at_time: None,
    });
    es.push(Entry {
        name: "fund.ShutdownVamms",
        target: Target::Fund,
        msg: jv(&fund::ExecuteMsg::ShutdownVamms {}),
        allowed: vec![roles.fund_owner.clone()],
        // something must be left that the fund can shut down: an open registered vAMM that still answers to this fund
        must_succeed_for_holder: reg.iter().any(|v| obs.v[*v].state.open && (obs.v[*v].cfg.insurance_fund == w.fund || roles.vamm_owner[*v] == w.fund.as_str())),
        at_time: None,
    });
    // a registered vAMM whose owner re-pointed it elsewhere: its registry entry is still the fund owner's to remove, nobody else's
    if let Some(v) = reg.iter().find(|v| obs.v[**v].cfg.insurance_fund != w.fund) {
        es.push(Entry {
            name: "fund.RemoveVamm#repointed",
            target: Target::Fund,
            msg: jv(&fund::ExecuteMsg::RemoveVamm { vamm: w.vamms[*v].to_string() }),
            allowed: vec![roles.fund_owner.clone()],
            must_succeed_for_holder: true,
            at_time: None,
        });
    }
    es.push(Entry {
        name: "fund.UpdateOwner",
        target: Target::Fund,
        msg: jv(&fund::ExecuteMsg::UpdateOwner { owner: "thirdadmin".into() }),
        allowed: vec![roles.fund_owner.clone()],
        must_succeed_for_holder: true,
        at_time: None,
    });
    // fee pool
    es.push(Entry {
        name: "pool.AddToken",
        target: Target::Pool,
        msg: jv(&fp::ExecuteMsg::AddToken { token: "ujunox".into() }),
        allowed: vec![roles.pool_owner.clone()],
        must_succeed_for_holder: true,
        at_time: None,
    });
    es.push(Entry {
        name: "pool.RemoveToken",
        target: Target::Pool,
        msg: jv(&fp::ExecuteMsg::RemoveToken { token: collateral.clone() }),
        allowed: vec![roles.pool_owner.clone()],
        must_succeed_for_holder: true,
        at_time: None,
    });
    es.push(Entry {
        name: "pool.SendToken",
        target: Target::Pool,
        msg: jv(&fp::ExecuteMsg::SendToken { token: collateral.clone(), amount: u(1), recipient: "stranger".into() }),
        allowed: vec![roles.pool_owner.clone()],
        must_succeed_for_holder: obs.bal[w.idx_fee_pool()] >= 1,
        at_time: None,
    });
    es.push(Entry {
        name: "pool.SendToken#zero",
        target: Target::Pool,
        msg: jv(&fp::ExecuteMsg::SendToken { token: collateral.clone(), amount: u(0), recipient: "stranger".into() }),
        allowed: vec![roles.pool_owner.clone()],
        must_succeed_for_holder: false,
        at_time: None,
    });
    es.push(Entry {
        name: "pool.SendToken#self",
        target: Target::Pool,
        msg: jv(&fp::ExecuteMsg::SendToken { token: collateral, amount: u(obs.bal[w.idx_fee_pool()]), recipient: "alice".into() }),
        allowed: vec![roles.pool_owner.clone()],
        must_succeed_for_holder: obs.bal[w.idx_fee_pool()] >= 1,
        at_time: None,
    });
    es.push(Entry {
        name: "pool.UpdateOwner",
        target: Target::Pool,
        msg: jv(&fp::ExecuteMsg::UpdateOwner { owner: "thirdadmin".into() }),
        allowed: vec![roles.pool_owner.clone()],
        must_succeed_for_holder: true,
        at_time: None,
    });
    es
}

/// hooks response type of cw-controllers (re-declared: the crate is not a direct dependency)
mod cw_controllers_hooks {
    use serde::Deserialize;
    #[derive(Deserialize, Debug)]
    pub struct HooksResponse {
        pub hooks: Vec<String>,
    }
}

fn senders(w: &World, roles: &Roles) -> Vec<String> {
    let mut s: Vec<String> = vec![
        "owner".into(),
        "pauser".into(),
        w.engine.to_string(),
        w.fund.to_string(),
        w.vamms[0].to_string(),
        "alice".into(),
        "stranger".into(),
        "newadmin".into(),
        "secondadmin".into(),
        w.fund2.to_string(),
        crate::world::RETIRED_FUND.to_string(),
        crate::world::ENGINE_TYPO.to_string(),
    ];
    for r in roles.vamm_owner.iter().chain(roles.feed_owner.iter()).chain([&roles.engine_owner, &roles.pauser, &roles.fund_owner, &roles.pool_owner, &roles.orphan_owner]).chain(roles.orphan_engine.iter()).chain(roles.orphan_fund.iter()) {
        if !s.contains(r) {
            s.push(r.clone());
        }
    }
    s
}

/// Runs the matrix (optionally restricted to one contract). Returns a violation if any.
fn matrix(w: &mut World, roles: &Roles, only: Option<&str>, out: &mut Outcome) -> Option<Violation> {
    let es = entries(w, roles);
    let ss = senders(w, roles);
    let snap = w.snapshot();
    for e in es.iter().filter(|e| only.map(|p| e.name.starts_with(p)).unwrap_or(true)) {
        let target = addr_of(w, &e.target);
        for s in &ss {
            // a contract never sends a message to itself (see DESIGN C09)
            if *s == target.to_string() {
                continue;
            }
            if let Some(t) = e.at_time {
                let h = w.height();
                w.set_time(h + 1, t);
            }
            let r = w.exec_json(s, &target, &e.msg, None);
            out.count("matrix_entries");
            let allowed = e.allowed.contains(s);
            let mut v = None;
            if !allowed {
                if r.ok {
                    v = Some(
                        Violation::new("unauthorised_call_succeeded", format!("{} sent by {} succeeded; role holders are {:?}", e.name, s, e.allowed))
                            .with("msg", e.name)
                            .with("sender_kind", kind_of(w, s)),
                    );
                } else {
                    if w.dump() != snap.kv {
                        v = Some(Violation::new("refused_call_changed_state", format!("{} sent by {} was refused but storage changed", e.name, s)).with("msg", e.name));
                    }
                }
            } else {
                out.count("holder_entries");
                if e.must_succeed_for_holder && !r.ok {
                    v = Some(
                        Violation::new("role_holder_refused", format!("{} sent by its role holder {} failed: {}", e.name, s, r.err))
                            .with("msg", e.name),
                    );
                }
            }
            if r.ok || e.at_time.is_some() {
                w.restore(&snap);
            }
            if v.is_some() {
                w.restore(&snap);
                return v;
            }
        }
    }
    None
}

fn kind_of(w: &World, s: &str) -> &'static str {
    if s == w.engine.as_str() {
        "engine"
    } else if s == w.fund.as_str() {
        "fund"
    } else if w.vamms.iter().any(|v| v.as_str() == s) {
        "vamm"
    } else if s == "alice" {
        "trader"
    } else if s == "stranger" {
        "stranger"
    } else {
        "admin_account"
    }
}

impl Property for C09 {
    type Case = Case;
    fn id(&self) -> &'static str {
        "C09"
    }
    fn strategy(&self, tier: Tier) -> BoxedStrategy<Case> {
        let mut p = CfgProfile::general();
        p.real_feed = Some(true);
        p.fluct = false;
        p.odd_vamms = true;
        p.max_vamms = 2;
        let mut w = Weights::trading();
        w.pause = 4;
        w.setopen = 4;
        w.register = 4;
        w.whitelist = 4;
        // a vAMM owner re-points its market's insurance-fund / margin-engine setting (authorisation on the other contracts must
        // not depend on what a vAMM says about itself)
        w.rewire = 3;
        w.squeeze = 0;
        w.liq_weakest = 1;
        w.liquidate = 1;
        let nt = tier.pick(4, 8);
        (
            world_cfg_strategy(&p),
            proptest::collection::vec(op_strategy(&w), 0..=10),
            proptest::collection::vec((0u8..9, 0u8..2, any::<u16>()).prop_map(|(role, v, to)| Transfer { role, v, to }), 0..=nt),
        )
            .prop_map(|(mut cfg, prelude, transfers)| {
                cfg.orphan = true;
                Case { cfg, prelude, transfers }
            })
            .boxed()
    }
    fn cases(&self, tier: Tier) -> u32 {
        tier.pick(8_000, 80_000)
    }
    fn level(&self) -> &'static str {
        "exploration"
    }
    fn evaluations_counter(&self) -> Option<&'static str> {
        Some("matrix_entries")
    }
    fn rule(&self) -> String {
        "deployments of all five contracts (1-2 vAMMs, each with the repository's own price feed, cw20 or native collateral) brought into a generated state by up to 10 engine / admin operations (positions, paused, closed, unregistered, whitelisted); then the complete matrix of 26 privileged message variants, several of them also with degenerate arguments (zero / whole-balance / oversized amounts: authorisation must not depend on the size of the request) (plus swaps / funding settlement / SetOpen on an extra vAMM that was opened before any margin engine or insurance fund was configured, where nobody holds those roles) (canonical instances whose arguments are valid in that state) x 9+ senders (deployment owner, pauser, engine contract, insurance-fund contract, a vAMM contract, a trader, a stranger, two fresh admin accounts, every current role holder) is executed, each entry from the same snapshot: a sender that does not hold the message's role must get Err with the raw storage dump unchanged; the role holder must succeed whenever nothing but authorisation can fail. Then up to 4 (thorough: 8) generated role transfers (vAMM owner, engine owner, pauser, fund owner, fee-pool owner, feed owner, and on the extra vAMM its owner and the first assignment / later re-assignment of its margin-engine and insurance-fund roles; chains and transfers back) are applied, the harness tracking the holders from the successful transfer messages, and after each the matrix of the affected contract is enumerated again. evaluations = matrix entries. Non-trivial: a case with >= 1 successful role transfer and >= 1 open position. Distinct by digest of the case.".into()
    }
    fn assumptions(&self) -> Vec<String> {
        vec![
            "a contract as external sender of a message to itself is left out (cw-multi-test would allow it, a chain does not)".into(),
            "role holders are tracked from instantiation senders and successful transfer messages, never read from the contracts' admin storage".into(),
        ]
    }
    fn max_shrink_iters(&self) -> u32 {
        150
    }
    fn run_case(&self, c: &Case, ctx: &Ctx) -> Outcome {
        let mut out = Outcome::default();
        let w = match World::build(&c.cfg) {
            Ok(w) => w,
            Err(_) => {
                out.count("world_rejected");
                return out;
            }
        };
        let mut it = Interp { w };
        for op in &c.prelude {
            let pre = observe(&it.w);
            let act = it.resolve(op, &pre);
            let r = it.exec_act(&act);
            out.count(if r.ok { "prelude_ok" } else { "prelude_err" });
        }
        let nv = it.w.vamms.len();
        let mut roles = Roles {
            vamm_owner: vec!["owner".into(); nv],
            engine_owner: "owner".into(),
            pauser: "pauser".into(),
            fund_owner: "owner".into(),
            pool_owner: "owner".into(),
            feed_owner: vec!["owner".into(); nv],
            orphan_owner: "owner".into(),
            orphan_engine: None,
            orphan_fund: None,
        };
        let positions = observe(&it.w).pos.iter().flatten().filter(|p| p.is_some()).count();
        let mut transfers_ok = 0u64;
        let mut log = vec![];
        if let Some(v) = matrix(&mut it.w, &roles, None, &mut out) {
            if let Some(v) = ctx.filter(&mut out, v) {
                out.violation = Some(v);
                return out;
            }
        }
        let orphan = it.w.orphan_vamm.clone().expect("orphan vamm");
        for (i, t) in c.transfers.iter().enumerate() {
            let to = CANDIDATES[idx(t.to, CANDIDATES.len())].to_string();
            let v = (t.v as usize) % nv;
            let (holder, target, msg, prefix): (String, Addr, serde_json::Value, &str) = match t.role % 9 {
                0 => (roles.vamm_owner[v].clone(), it.w.vamms[v].clone(), jv(&vamm::ExecuteMsg::UpdateOwner { owner: to.clone() }), "vamm."),
                1 => {
                    // half of the engine hand-overs travel together with other fields of the same message, re-stating the
                    // values the engine already has (so that nothing but authorisation can fail)
                    let ec = it.w.engine_config();
                    let k = t.to % 8;
                    (
                        roles.engine_owner.clone(),
                        it.w.engine.clone(),
                        jv(&eng::ExecuteMsg::UpdateConfig {
                            owner: Some(to.clone()),
                            insurance_fund: if k >= 6 { Some(ec.insurance_fund.to_string()) } else { None },
                            fee_pool: if k >= 6 { Some(ec.fee_pool.to_string()) } else { None },
                            initial_margin_ratio: if k == 4 || k == 7 { Some(ec.initial_margin_ratio) } else { None },
                            maintenance_margin_ratio: if k == 5 || k == 7 { Some(ec.maintenance_margin_ratio) } else { None },
                            partial_liquidation_ratio: if k == 7 { Some(ec.partial_liquidation_ratio) } else { None },
                            liquidation_fee: if k == 5 || k == 7 { Some(ec.liquidation_fee) } else { None },
                        }),
                        "engine.",
                    )
                }
                2 => (roles.pauser.clone(), it.w.engine.clone(), jv(&eng::ExecuteMsg::UpdatePauser { pauser: to.clone() }), "engine."),
                3 => (roles.fund_owner.clone(), it.w.fund.clone(), jv(&fund::ExecuteMsg::UpdateOwner { owner: to.clone() }), "fund."),
                4 => (roles.pool_owner.clone(), it.w.fee_pool.clone(), jv(&fp::ExecuteMsg::UpdateOwner { owner: to.clone() }), "pool."),
                5 => (roles.feed_owner[v].clone(), it.w.oracles[v].clone(), jv(&feed::ExecuteMsg::UpdateOwner { owner: to.clone() }), "feed."),
                6 => (roles.orphan_owner.clone(), orphan.clone(), jv(&vamm::ExecuteMsg::UpdateOwner { owner: to.clone() }), "orphan."),
                k => {
                    // one assignment in four re-states the market's fee and band settings in the same message
                    let oc = if t.to % 4 == 3 { it.w.query::<vamm::ConfigResponse, _>(&orphan, &vamm::QueryMsg::Config {}).ok() } else { None };
                    (
                    roles.orphan_owner.clone(),
                    orphan.clone(),
                    jv(&vamm::ExecuteMsg::UpdateConfig {
                        base_asset_holding_cap: None,
                        open_interest_notional_cap: None,
                        toll_ratio: oc.as_ref().map(|c| c.toll_ratio),
                        spread_ratio: oc.as_ref().map(|c| c.spread_ratio),
                        fluctuation_limit_ratio: oc.as_ref().map(|c| c.fluctuation_limit_ratio),
                        margin_engine: if k == 7 { Some(to.clone()) } else { None },
                        insurance_fund: if k == 8 { Some(to.clone()) } else { None },
                        pricefeed: None,
                        spot_price_twap_interval: None,
                    }),
                    "orphan.",
                    )
                }
            };
            let r = it.w.exec_json(&holder, &target, &msg, None);
            log.push(json!({"role": t.role % 9, "v": v, "from": holder, "to": to, "ok": r.ok}));
            if !r.ok {
                let v = Violation::new("role_holder_refused", format!("role transfer {} by the tracked holder {} to {} failed: {}", prefix, holder, to, r.err)).with("msg", "transfer").at(i);
                if let Some(v) = ctx.filter(&mut out, v) {
                    out.violation = Some(v);
                    return out;
                }
                continue;
            }
            transfers_ok += 1;
            match t.role % 9 {
                0 => roles.vamm_owner[v] = to,
                1 => roles.engine_owner = to,
                2 => roles.pauser = to.clone(),
                3 => roles.fund_owner = to,
                4 => roles.pool_owner = to,
                5 => roles.feed_owner[v] = to,
                6 => roles.orphan_owner = to,
                7 => roles.orphan_engine = Some(to),
                _ => roles.orphan_fund = Some(to),
            }
            if t.role % 9 == 2 {
                it.w.pauser = roles.pauser.clone();
            }
            if let Some(v) = matrix(&mut it.w, &roles, Some(prefix), &mut out) {
                if let Some(v) = ctx.filter(&mut out, v.at(i)) {
                    out.violation = Some(v);
                    return out;
                }
            }
        }
        out.add("role_transfers_ok", transfers_ok);
        out.nontrivial = transfers_ok >= 1 && positions >= 1;
        if ctx.want_summary {
            out.summary = Some(json!({"positions": positions, "transfers": log, "final_roles": format!("{:?}", roles)}));
        }
        out
    }
}
