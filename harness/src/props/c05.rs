//! C05 — trader actions never leave the trader under-margined.
use super::histprop::HistProp;
use crate::hist::{Act, Effect, Interp, Monitor, Obs, Step};
use crate::ops::{CfgProfile, Weights};
use crate::oracle::{pos_ref_m, PosRef};
use crate::refmath::{ratio, S};
use crate::run::{Outcome, Violation};
use crate::world::World;
use cosmwasm_std::Uint256;
use margined_common::integer::Integer;
use margined_perp::margined_engine as eng;
use serde_json::json;

#[derive(Default)]
pub struct Mon {
    pre_ref: Option<PosRef>,
    pre_fc: Option<S>,
    interesting: u64,
}

impl Monitor for Mon {
    fn before(&mut self, it: &mut Interp, act: &Act, pre: &Obs, _out: &mut Outcome) -> Option<Violation> {
        self.pre_ref = None;
        self.pre_fc = None;
        if let Some((v, t)) = act.subject() {
            if matches!(act, Act::Open { .. } | Act::Withdraw { .. } | Act::Deposit { .. }) {
                self.pre_ref = pos_ref_m(&it.w, pre, v, t);
            }
            if let Act::Withdraw { .. } = act {
                self.pre_fc = it
                    .w
                    .query::<Integer, _>(&it.w.engine, &eng::QueryMsg::FreeCollateral { vamm: it.w.vamms[v].to_string(), trader: it.w.traders[t].clone() })
                    .ok()
                    .map(S::from_integer);
            }
        }
        None
    }
    fn after(&mut self, w: &World, s: &Step, out: &mut Outcome) -> Option<Violation> {
        let d = w.d;
        match s.act {
            Act::Open { t, v, lev, .. } => {
                let imr = s.pre.ecfg.initial_margin_ratio.u128();
                let d2 = Uint256::from(d) * Uint256::from(d);
                let li = Uint256::from(*lev) * Uint256::from(imr);
                let near = |a: Uint256, b: Uint256| if a > b { a - b <= Uint256::from(imr.max(1)) } else { b - a <= Uint256::from(imr.max(1)) };
                if *lev < d || li > d2 {
                    out.count("invalid_leverage_attempts");
                    if *lev + 1 == d || near(li, d2) {
                        self.interesting += 1;
                        out.count("leverage_at_boundary");
                    }
                    if s.res.ok {
                        return Some(
                            Violation::new(
                                "invalid_leverage_accepted",
                                format!("OpenPosition with leverage {} succeeded (D = {}, initial margin ratio {})", lev, d, imr),
                            )
                            .with("below_one", *lev < d),
                        );
                    }
                } else if near(li, d2) && s.res.ok {
                    self.interesting += 1;
                    out.count("leverage_at_boundary");
                }
                if s.res.ok {
                    if let Some(pr) = pos_ref_m(w, s.post, *v, *t) {
                        let maint = S::pos(s.post.ecfg.maintenance_margin_ratio.u128());
                        out.count("post_open_ratio_checks");
                        // the engine's own answer
                        let eng_ratio = w
                            .query::<Integer, _>(&w.engine, &eng::QueryMsg::MarginRatio { vamm: w.vamms[*v].to_string(), trader: w.traders[*t].clone() })
                            .ok()
                            .map(S::from_integer);
                        if let Some(r) = eng_ratio {
                            if r.lt(&maint) {
                                return Some(
                                    Violation::new("undermargined_after_open", format!("after a successful OpenPosition ({:?}) the engine reports margin ratio {} < maintenance {}", s.effect, r, maint))
                                        .with("effect", format!("{:?}", s.effect))
                                        .with("source", "engine_query"),
                                );
                            }
                        }
                        // independent recomputation from the post-state
                        if let Some((pn, n, _)) = pr.chosen() {
                            if n > 0 {
                                let r = ratio(pr.equity(&pn), n, d);
                                if r.lt(&maint) {
                                    return Some(
                                        Violation::new(
                                            "undermargined_after_open",
                                            format!(
                                                "after a successful OpenPosition ({:?}) the recomputed margin ratio is {} < maintenance {} (margin {}, pnl {}, funding {}, notional {})",
                                                s.effect, r, maint, pr.margin, pn, pr.funding, n
                                            ),
                                        )
                                        .with("effect", format!("{:?}", s.effect))
                                        .with("source", "reference"),
                                    );
                                }
                            }
                        }
                        // the same with the 15-minute TWAP value recomputed from the harness's own record of block-final reserves
                        // (one raw unit of slack either way: the most favourable of the three candidates counts)
                        if let Some(tref) = pr.n_twap_ref {
                            let mut best: Option<S> = None;
                            for cand in [tref.saturating_sub(1), tref, tref.saturating_add(1)] {
                                let mut p2 = pr.clone();
                                p2.n_twap = Some(cand);
                                if let Some((pn, n, _)) = p2.chosen() {
                                    if n > 0 {
                                        let r = ratio(p2.equity(&pn), n, d);
                                        best = Some(match best {
                                            Some(b) if b.ge(&r) => b,
                                            _ => r,
                                        });
                                        continue;
                                    }
                                }
                                best = None;
                                break;
                            }
                            if let Some(r) = best {
                                out.count("post_open_ratio_checks_with_recomputed_twap");
                                if r.lt(&maint) {
                                    return Some(
                                        Violation::new(
                                            "undermargined_after_open",
                                            format!(
                                                "after a successful OpenPosition ({:?}) the margin ratio with the 15-minute TWAP value {} recomputed from the block-final reserves (the vAMM answered {:?}) is at most {} < maintenance {}",
                                                s.effect, tref, pr.n_twap, r, maint
                                            ),
                                        )
                                        .with("effect", format!("{:?}", s.effect))
                                        .with("source", "recomputed_twap"),
                                    );
                                }
                            }
                        }
                        if let Some(p0) = &self.pre_ref {
                            let moved = p0.n_spot.map(|n| n.abs_diff(p0.notional) * 100 >= p0.notional).unwrap_or(false);
                            if moved || !p0.funding.is_zero() {
                                self.interesting += 1;
                                out.count("open_on_existing_position_after_move_or_funding");
                            }
                        }
                    }
                }
            }
            Act::Withdraw { t, v, amount } if s.res.ok => {
                let i = *t;
                out.count("withdraw_checks");
                if s.post.bal[i] != s.pre.bal[i].saturating_add(*amount) {
                    return Some(Violation::new("withdraw_wallet", format!("WithdrawMargin {}: wallet {} -> {}", amount, s.pre.bal[i], s.post.bal[i])));
                }
                if let (Some(pr), Some(p1)) = (&self.pre_ref, &s.post.pos[*v][*t]) {
                    let exp = S::pos(pr.margin).sub(&S::pos(*amount)).sub(&pr.funding);
                    if exp.is_neg() {
                        return Some(Violation::new("withdraw_created_bad_debt", format!("WithdrawMargin {} succeeded although margin {} - amount - funding {} = {} < 0", amount, pr.margin, pr.funding, exp)));
                    }
                    if S::pos(p1.margin.u128()) != exp {
                        return Some(
                            Violation::new(
                                "withdraw_margin_delta",
                                format!("WithdrawMargin {}: stored margin {} -> {} but expected margin - amount - funding owed ({}) = {}", amount, pr.margin, p1.margin, pr.funding, exp),
                            )
                            .with("funding_zero", pr.funding.is_zero()),
                        );
                    }
                    if S::from_integer(p1.last_updated_premium_fraction) != s.post.v[*v].cpf {
                        return Some(Violation::new("withdraw_checkpoint", format!("WithdrawMargin: funding checkpoint {} != current cumulative fraction {}", p1.last_updated_premium_fraction, s.post.v[*v].cpf)));
                    }
                }
                let fc = w
                    .query::<Integer, _>(&w.engine, &eng::QueryMsg::FreeCollateral { vamm: w.vamms[*v].to_string(), trader: w.traders[*t].clone() })
                    .ok()
                    .map(S::from_integer);
                if let Some(fc) = fc {
                    if fc.is_neg() {
                        return Some(Violation::new("negative_free_collateral_after_withdraw", format!("free collateral after a successful WithdrawMargin {} is {}", amount, fc)));
                    }
                }
                // the same from the post-state's position and prices, independently of the engine's FreeCollateral answer:
                // min(margin, margin + pnl) - requirement, pnl = the smaller in magnitude of spot and 15-minute-TWAP PnL,
                // requirement = floor(initial ratio x open notional (long) / position value (short))
                if let Some(pr) = pos_ref_m(w, s.post, *v, *t) {
                    if let Some((pn, n, _)) = pr.chosen() {
                        let m = S::pos(pr.margin).sub(&pr.funding);
                        let with_pnl = m.add(&pn);
                        let min_coll = if pn.is_neg() { with_pnl } else { m };
                        let basis = if pr.long { pr.notional } else { n };
                        let req = crate::refmath::fee(basis, s.post.ecfg.initial_margin_ratio.u128(), d);
                        let fc_ref = min_coll.sub(&S::pos(req));
                        out.count("withdraw_free_collateral_recomputed");
                        if fc_ref.is_neg() {
                            return Some(
                                Violation::new(
                                    "negative_free_collateral_after_withdraw",
                                    format!(
                                        "after a successful WithdrawMargin {} the free collateral recomputed from the position is {} (margin {}, pnl {}, requirement floor({} x initial ratio {}) = {}); the engine answers {:?}",
                                        amount, fc_ref, pr.margin, pn, basis, s.post.ecfg.initial_margin_ratio, req, fc
                                    ),
                                )
                                .with("source", "recomputed")
                                .with("long", pr.long),
                            );
                        }
                    }
                }
                if let Some(f0) = &self.pre_fc {
                    if let Some(m) = f0.mag_u128() {
                        if !f0.is_neg() && m.abs_diff(*amount) * 100 <= m.max(1) {
                            self.interesting += 1;
                            out.count("withdraw_near_free_collateral");
                        }
                    }
                }
            }
            Act::Withdraw { amount, .. } => {
                if let Some(f0) = &self.pre_fc {
                    if let Some(m) = f0.mag_u128() {
                        if !f0.is_neg() && m.abs_diff(*amount) * 100 <= m.max(1) {
                            self.interesting += 1;
                            out.count("withdraw_near_free_collateral");
                        }
                    }
                }
            }
            Act::Deposit { t, v, amount, attach } if s.res.ok => {
                if w.cfg.native && attach != amount {
                    out.count("native_deposit_with_mismatched_funds_accepted");
                }
                out.count("deposit_checks");
                let i = *t;
                let m0 = s.pre.pos[*v][*t].as_ref().map(|p| p.margin.u128());
                let m1 = s.post.pos[*v][*t].as_ref().map(|p| p.margin.u128());
                let wallet_drop = s.pre.bal[i].saturating_sub(s.post.bal[i]);
                match (m0, m1) {
                    (Some(m0), Some(m1)) => {
                        if m1 < m0 || m1 - m0 != wallet_drop || wallet_drop != *amount {
                            return Some(Violation::new(
                                "deposit_accounting",
                                format!("DepositMargin {}: stored margin {} -> {}, wallet fell by {}", amount, m0, m1, wallet_drop),
                            ));
                        }
                    }
                    _ => {
                        return Some(Violation::new("deposit_without_position", format!("DepositMargin {} succeeded but position before/after = {:?}/{:?}", amount, m0, m1)));
                    }
                }
            }
            _ => {}
        }
        let _ = Effect::None;
        None
    }
    fn end(&mut self, _w: &World, out: &mut Outcome) {
        out.nontrivial = self.interesting >= 1;
        out.summary = Some(json!({"interesting_events": self.interesting}));
    }
}

pub fn prop() -> HistProp {
    let mut w = Weights::trading();
    // funding drains: the oracle is set so that the next settlement consumes about half / all / several times a holder's margin
    w.drain = 3;
    w.open = 36;
    w.withdraw = 14;
    w.deposit = 8;
    w.liq_weakest = 2;
    w.liquidate = 1;
    // the pauser edits the whitelist and the owner the ratios in between (neither exempts anybody from the margin rules)
    w.whitelist = 3;
    // the pauser role changes hands: to a trading account and back (holding a role is not being whitelisted)
    w.handover = 2;
    w.ecfg = 3;
    HistProp {
        id: "C05",
        level: "exploration",
        profile: CfgProfile::general(),
        weights: w,
        min_ops: 4,
        max_ops: (40, 100),
        cases: (12_000, 400_000),
        make: || Box::new(Mon::default()),
        rule: "engine histories with margin / leverage inputs incl. 1 raw unit, non-integer leverage, leverage exactly D^2/imr and +-1 raw unit, D-1, twice the maximum, on fresh, increasing, reducing and reversing positions after price moves and with funding pending; withdrawals at free collateral +-1 / half / double / the whole margin; deposits of generated size (native deployments: also with more / fewer coins attached than the amount argument). (a) after a successful OpenPosition leaving size != 0 both the engine's MarginRatio answer and the ratio recomputed from the post-state (OutputAmount, OutputTwap, cumulative premium fraction) are >= maintenance; (b) leverage < D or leverage*imr > D^2 must fail; (c) successful WithdrawMargin{a}: wallet + a exactly, stored margin = M - a - F >= 0, checkpoint = current fraction, FreeCollateral >= 0 afterwards; (d) successful DepositMargin{a}: stored margin rises by a = wallet decrease. Non-trivial: an open on an existing position after a >=1% move or with funding pending, or a leverage within one initial-ratio step of the boundary, or a withdrawal within 1% of the free collateral. Distinct by digest of (cfg, ops).",
        assumptions: &[],
        eval_counter: None,
    }
}
