//! Generic wrapper: a property decided by a monitor over generated engine histories.
use crate::hist::{run_history, Monitor};
use crate::ops::{hist_strategy, CfgProfile, HistCase, Weights};
use crate::run::{Ctx, Outcome, Property, Tier};
use proptest::strategy::BoxedStrategy;

pub struct HistProp {
    pub id: &'static str,
    pub level: &'static str,
    pub profile: CfgProfile,
    pub weights: Weights,
    pub min_ops: usize,
    pub max_ops: (usize, usize),
    pub cases: (u32, u32),
    pub make: fn() -> Box<dyn Monitor>,
    pub rule: &'static str,
    pub assumptions: &'static [&'static str],
    pub eval_counter: Option<&'static str>,
}

impl Property for HistProp {
    type Case = HistCase;
    fn id(&self) -> &'static str {
        self.id
    }
    fn level(&self) -> &'static str {
        self.level
    }
    fn strategy(&self, tier: Tier) -> BoxedStrategy<HistCase> {
        hist_strategy(&self.profile, &self.weights, self.min_ops, tier.pick(self.max_ops.0, self.max_ops.1))
    }
    fn cases(&self, tier: Tier) -> u32 {
        tier.pick(self.cases.0, self.cases.1)
    }
    fn run_case(&self, case: &HistCase, ctx: &Ctx) -> Outcome {
        let mut out = Outcome::default();
        let mut mon = (self.make)();
        run_history(case, mon.as_mut(), ctx, &mut out);
        out
    }
    fn rule(&self) -> String {
        self.rule.to_string()
    }
    fn assumptions(&self) -> Vec<String> {
        let mut v: Vec<String> = self.assumptions.iter().map(|s| s.to_string()).collect();
        v.push("cw-multi-test 0.13.4 is the trusted chain simulator (message ordering, sub-message/reply semantics, transactional storage, bank)".into());
        v
    }
    fn max_shrink_iters(&self) -> u32 {
        400
    }
    fn evaluations_counter(&self) -> Option<&'static str> {
        self.eval_counter
    }
}
