//! C03 — collateral is conserved and only flows to permitted recipients.
use super::histprop::HistProp;
use crate::hist::{Act, Effect, Monitor, Step};
use crate::ops::{CfgProfile, Weights};
use crate::run::{Outcome, Violation};
use crate::world::World;
use serde_json::json;
use std::collections::BTreeSet;

#[derive(Default)]
pub struct Mon {
    shapes: BTreeSet<&'static str>,
    liq_or_refund: bool,
}

impl Monitor for Mon {
    fn begin(&mut self, w: &mut World, _out: &mut Outcome) {
        // PayFunding takes no payment: coins a caller attaches anyway must stay with the caller or the protocol's own accounts
        w.stray_funding_coins = true;
    }
    fn after(&mut self, w: &World, s: &Step, out: &mut Outcome) -> Option<Violation> {
        if matches!(s.act, Act::NextBlock { .. }) {
            return None;
        }
        let sum = |b: &Vec<u128>| b.iter().fold(cosmwasm_std::Uint256::zero(), |a, x| a + cosmwasm_std::Uint256::from(*x));
        let (t0, t1) = (sum(&s.pre.bal), sum(&s.post.bal));
        if t0 != t1 {
            return Some(
                Violation::new(
                    "total_collateral_changed",
                    format!("total over all known accounts {} -> {} in {} (ok={})", t0, t1, s.act.name(), s.res.ok),
                )
                .with("act", s.act.name())
                .with("native", w.cfg.native),
            );
        }
        out.count("conservation_checks");
        if s.act.is_engine_tx() {
            let allowed = [s.sender.to_string(), w.engine.to_string(), w.fund.to_string(), w.fee_pool.to_string()];
            for (i, a) in w.accounts.iter().enumerate() {
                if s.pre.bal[i] != s.post.bal[i] && !allowed.contains(a) {
                    return Some(
                        Violation::new(
                            "third_party_balance_changed",
                            format!("{}: balance of {} changed {} -> {} although it is neither the sender ({}), the engine, the insurance fund nor the fee pool", s.act.name(), a, s.pre.bal[i], s.post.bal[i], s.sender),
                        )
                        .with("act", s.act.name())
                        .with("effect", format!("{:?}", s.effect))
                        .with("native", w.cfg.native),
                    );
                }
            }
            out.count("recipient_checks");
        }
        if let Act::Liquidate { target, who, .. } = s.act {
            if s.res.ok && &w.traders[*target] != who {
                let i = *target; // traders come first in `accounts`
                if s.post.bal[i] > s.pre.bal[i] {
                    return Some(
                        Violation::new(
                            "liquidated_trader_received",
                            format!("liquidated trader {} received {} from its own liquidation", w.traders[i], s.post.bal[i] - s.pre.bal[i]),
                        )
                        .with("effect", format!("{:?}", s.effect)),
                    );
                }
                if s.post.bal[i] != s.pre.bal[i] {
                    return Some(Violation::new(
                        "liquidated_trader_balance_changed",
                        format!("liquidated trader {} balance {} -> {}", w.traders[i], s.pre.bal[i], s.post.bal[i]),
                    ));
                }
                out.count("liquidated_trader_checks");
            }
        }
        // classification of transfer shapes (supporting evidence; verdicts above use balances)
        if s.res.ok {
            let (e, f, p) = (w.engine.to_string(), w.fund.to_string(), w.fee_pool.to_string());
            for x in &s.res.xfers {
                let shape = if x.to == e && x.from == f {
                    "fund->vault"
                } else if x.to == e {
                    "trader->vault"
                } else if x.to == f {
                    "->fund"
                } else if x.to == p {
                    "->fee_pool"
                } else if x.from == e && x.to == w.liquidator {
                    "vault->liquidator"
                } else if x.from == e {
                    "vault->trader"
                } else {
                    "other"
                };
                self.shapes.insert(shape);
            }
            if matches!(s.effect, Effect::LiqFull | Effect::LiqPartial | Effect::Reversed) {
                self.liq_or_refund = true;
            }
        }
        None
    }
    fn end(&mut self, _w: &World, out: &mut Outcome) {
        out.nontrivial = self.shapes.len() >= 3 && self.liq_or_refund;
        out.summary = Some(json!({"transfer_shapes": self.shapes.iter().collect::<Vec<_>>(), "liquidation_or_reversal": self.liq_or_refund}));
    }
}

pub fn prop() -> HistProp {
    let mut w = Weights::trading();
    // funding drains: the oracle is set so that the next settlement consumes about half / all / several times a holder's margin
    w.drain = 3;
    // the engine is paused and resumed in between (liquidations and settlements stay available)
    w.pause = 2;
    // trading is halted, a liquidation happens meanwhile, trading resumes: all within one block
    w.paused_liq = 3;
    w.ecfg = 2;
    w.vcfg = 2;
    w.rewire = 2;
    w.intruder = 2;
    // liquidations by several different callers in one history (who is paid is what this property is about)
    w.liq_weakest = 16;
    w.liquidate = 6;
    w.squeeze = 12;
    HistProp {
        id: "C03",
        level: "exploration",
        profile: CfgProfile::general(),
        weights: w,
        min_ops: 4,
        max_ops: (40, 100),
        cases: (20_000, 400_000),
        make: || Box::new(Mon::default()),
        rule: "generated deployments (cw20 6/9 decimals and native, fees, ratios, small and large insurance fund) and engine histories as in C02 plus configuration updates. Balances of all known accounts (5 traders, liquidator, stranger, owner, pauser, engine, insurance fund, fee pool, every vAMM, every oracle) are read before and after each transaction: (i) the total is unchanged, (ii) for margin-engine transactions only the sender, the engine, the insurance fund and the fee pool may change, (iii) a trader liquidated by someone else has an unchanged balance. Non-trivial: a history whose successful transactions show at least 3 distinct transfer shapes (trader->vault, vault->trader, ->fund, ->fee pool, fund->vault, vault->liquidator) and contain a liquidation or a reversal. Distinct by digest of (cfg, ops).",
        assumptions: &["the set of known accounts is closed: no contract of the deployment pays an address outside it (checked: a transfer to an unknown address would break clause (i))"],
        eval_counter: None,
    }
}
