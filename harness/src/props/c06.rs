//! C06 — liquidation only of under-margined positions, with exact payouts.
//! C07 — under-margined positions can always be liquidated (one-step liveness).
use super::histprop::HistProp;
use crate::hist::{Act, Effect, Interp, Monitor, Obs, Step};
use crate::ops::{CfgProfile, Weights};
use crate::oracle::{flow, liq_ratio, pos_ref_m, PosRef};
use crate::refmath::{fee, pnl, S};
use crate::run::{Outcome, Violation};
use crate::world::{mul_div_floor, World};
use serde_json::json;

#[derive(Clone, Debug)]
pub struct LiqPre {
    pub pr: PosRef,
    /// (ratio, used_twap, oracle_override_applied, spread_over_limit)
    pub ratio: Option<(S, bool, bool, bool)>,
    pub choices_differ: bool,
}

pub fn liq_pre(w: &World, pre: &Obs, v: usize, t: usize) -> Option<LiqPre> {
    let pr = pos_ref_m(w, pre, v, t)?;
    let ratio = liq_ratio(w, pre, v, &pr);
    let choices_differ = match (pr.pnl_spot(), pr.pnl_twap()) {
        (Some(a), Some(b)) => a != b,
        _ => false,
    };
    Some(LiqPre { pr, ratio, choices_differ })
}

/// The liquidation ratio with the position's 15-minute TWAP value taken from the harness's own record of block-final reserves
/// (one raw unit of slack either way): (lowest, highest) ratio over the three candidate values. None without a record.
pub fn ratio_by_harness_twap(w: &World, obs: &Obs, v: usize, pr: &PosRef) -> Option<(S, S)> {
    let tref = pr.n_twap_ref?;
    let mut lo: Option<S> = None;
    let mut hi: Option<S> = None;
    for cand in [tref.saturating_sub(1), tref, tref.saturating_add(1)] {
        let mut p2 = pr.clone();
        p2.n_twap = Some(cand);
        let (r, _, _, _) = liq_ratio(w, obs, v, &p2)?;
        lo = Some(match lo {
            Some(x) if x.le(&r) => x,
            _ => r,
        });
        hi = Some(match hi {
            Some(x) if x.ge(&r) => x,
            _ => r,
        });
    }
    Some((lo?, hi?))
}

#[derive(Default)]
pub struct Mon06 {
    lp: Option<LiqPre>,
    interesting: u64,
    full: u64,
    partial: u64,
}

impl Monitor for Mon06 {
    fn before(&mut self, it: &mut Interp, act: &Act, pre: &Obs, _out: &mut Outcome) -> Option<Violation> {
        self.lp = None;
        if let Act::Liquidate { v, target, .. } = act {
            self.lp = liq_pre(&it.w, pre, *v, *target);
        }
        None
    }
    fn after(&mut self, w: &World, s: &Step, out: &mut Outcome) -> Option<Violation> {
        let d = w.d;
        let (v, target, who) = match s.act {
            Act::Liquidate { v, target, who, .. } => (*v, *target, who.clone()),
            _ => return None,
        };
        let lp = self.lp.clone()?;
        let maint = S::pos(s.pre.ecfg.maintenance_margin_ratio.u128());
        out.count("liquidation_attempts_on_positions");
        if let Some((r, used_twap, applied, _over)) = &lp.ratio {
            let dist = r.sub(&maint).abs();
            if dist.le(&S::pos(d / 50)) {
                self.interesting += 1;
                out.count("attempt_within_2pct_of_maintenance");
            }
            if lp.choices_differ && *used_twap {
                self.interesting += 1;
                out.count("attempt_where_twap_chosen");
            }
            if *applied {
                self.interesting += 1;
                out.count("attempt_with_oracle_override");
            }
        }
        if s.pre.v[v].cfg.spot_price_twap_interval < 900 {
            out.count("attempts_with_funding_twap_interval_below_15min");
        }
        if let (Some(a), Some(b)) = (lp.pr.n_twap, lp.pr.n_twap_ref) {
            out.count(match a.abs_diff(b) {
                0 => "twap_vs_harness_record.equal",
                1 => "twap_vs_harness_record.off_by_one",
                _ => "twap_vs_harness_record.differs",
            });
        }
        if !s.res.ok {
            return None;
        }
        // ---- (1) only under-margined positions
        match &lp.ratio {
            Some((r, used_twap, applied, over)) => {
                out.count("ratio_checks");
                if r.gt(&maint) {
                    return Some(
                        Violation::new(
                            "liquidated_above_maintenance",
                            format!(
                                "Liquidate succeeded although the margin ratio was {} > maintenance {} (margin {}, funding owed {}, spot value {:?}, twap value {:?}, open notional {}, twap chosen {}, spread over limit {}, oracle override {})",
                                r, maint, lp.pr.margin, lp.pr.funding, lp.pr.n_spot, lp.pr.n_twap, lp.pr.notional, used_twap, over, applied
                            ),
                        )
                        .with("used_twap", used_twap)
                        .with("oracle_applied", applied)
                        .with("spread_over", over),
                    );
                }
            }
            None => out.count("ratio_not_computable"),
        }
        // the same with the 15-minute TWAP recomputed from the harness's own record of block-final reserves
        if let Some((lo, _)) = ratio_by_harness_twap(w, s.pre, v, &lp.pr) {
            out.count("ratio_checks_with_recomputed_twap");
            if lo.gt(&maint) {
                return Some(
                    Violation::new(
                        "liquidated_above_maintenance",
                        format!(
                            "Liquidate succeeded although, with the 15-minute TWAP value {:?} recomputed from the block-final reserves (the vAMM answered {:?}), the margin ratio is at least {} > maintenance {} (margin {}, funding owed {}, spot value {:?}, open notional {})",
                            lp.pr.n_twap_ref, lp.pr.n_twap, lo, maint, lp.pr.margin, lp.pr.funding, lp.pr.n_spot, lp.pr.notional
                        ),
                    )
                    .with("twap", "recomputed"),
                );
            }
        }
        // ---- (2) payouts
        let pr = &lp.pr;
        let q = s.pre.v[v].state.quote_asset_reserve.u128().abs_diff(s.post.v[v].state.quote_asset_reserve.u128());
        let half = fee(q, s.pre.ecfg.liquidation_fee.u128(), d) / 2;
        let (e, f) = (w.engine.to_string(), w.fund.to_string());
        let to_liq = flow(&s.res.xfers, Some(&e), &who);
        let to_fund = flow(&s.res.xfers, Some(&e), &f);
        let trader = &w.traders[target];
        let to_trader: u128 = s.res.xfers.iter().filter(|x| &x.to == trader && &who != trader).map(|x| x.amount).sum();
        if to_trader != 0 {
            return Some(Violation::new("liquidated_trader_paid", format!("the liquidated trader received {} in its own liquidation", to_trader)).with("effect", format!("{:?}", s.effect)));
        }
        match s.effect {
            Effect::LiqFull => {
                self.full += 1;
                out.count("full_liquidation_checks");
                if to_liq != half {
                    return Some(
                        Violation::new("liquidator_fee_full", format!("full liquidation: liquidator received {} but half of floor(quote exchanged {} x fee {}) = {}", to_liq, q, s.pre.ecfg.liquidation_fee, half))
                            .with("effect", "LiqFull"),
                    );
                }
                let realised = pnl(pr.long, q, pr.notional);
                let equity = pr.equity(&realised);
                let remaining = if equity.is_neg() { 0 } else { equity.mag_u128().unwrap_or(u128::MAX) };
                let exp_fund = remaining.saturating_sub(half);
                if to_fund != exp_fund {
                    return Some(
                        Violation::new(
                            "remaining_margin_to_fund",
                            format!(
                                "full liquidation: vault sent the insurance fund {} but remaining margin max(0, {} + {} - {}) - liquidator fee {} = {}",
                                to_fund, pr.margin, realised, pr.funding, half, exp_fund
                            ),
                        )
                        .with("effect", "LiqFull")
                        .with("funding_zero", pr.funding.is_zero()),
                    );
                }
            }
            Effect::LiqPartial => {
                self.partial += 1;
                out.count("partial_liquidation_checks");
                let p1 = s.post.pos[v][target].as_ref()?;
                let frac = s.pre.ecfg.partial_liquidation_ratio.u128();
                let closed = mul_div_floor(pr.size, frac, d);
                let s1 = S::from_integer(p1.size);
                if (!s1.is_zero() && s1.is_neg() == pr.long) || p1.size.value.u128() != pr.size - closed {
                    return Some(
                        Violation::new(
                            "partial_liquidation_size",
                            format!("partial liquidation: size {}{} -> {} but the configured fraction {} of it is {}", if pr.long { "" } else { "-" }, pr.size, s1, frac, closed),
                        )
                        .with("effect", "LiqPartial"),
                    );
                }
                if to_liq != half || to_fund != half {
                    return Some(
                        Violation::new(
                            "partial_liquidation_split",
                            format!("partial liquidation: liquidator received {} and the insurance fund {}, each should get half of the penalty = {} (quote exchanged {})", to_liq, to_fund, half, q),
                        )
                        .with("effect", "LiqPartial"),
                    );
                }
            }
            Effect::Odd => {
                return Some(
                    Violation::new(
                        "liquidation_grew_or_flipped",
                        format!("Liquidate changed the position from {:?} to {:?}", s.pre.pos[v][target].as_ref().map(|p| p.size.to_string()), s.post.pos[v][target].as_ref().map(|p| p.size.to_string())),
                    )
                    .with("effect", "Odd"),
                );
            }
            _ => {}
        }
        None
    }
    fn end(&mut self, _w: &World, out: &mut Outcome) {
        out.nontrivial = self.interesting >= 1 && (self.full + self.partial) >= 1;
        out.summary = Some(json!({"boundary_or_choice_attempts": self.interesting, "full": self.full, "partial": self.partial}));
    }
}

pub fn liq_weights() -> Weights {
    let mut w = Weights::trading();
    // funding drains: the oracle is set so that the next settlement consumes about half / all / several times a holder's margin
    w.drain = 3;
    w.open = 24;
    w.close = 9;
    w.deposit = 3;
    w.withdraw = 5;
    w.liquidate = 5;
    w.liq_weakest = 18;
    w.squeeze = 14;
    w.push = 8;
    w.oracle = 8;
    w.funding = 8;
    w.block = 12;
    // the owner changes ratios in between (incl. values the engine must refuse)
    w.ecfg = 4;
    // liquidation attempts 1-15 minutes after a move that puts the target below maintenance at the spot price only
    w.lag = 4;
    // the prepaid-bad-debt counter brought to exactly (or one unit beside) the bad debt of the liquidation that follows
    w.match_prepaid = 4;
    w
}

pub fn prop06() -> HistProp {
    let mut p = CfgProfile::general();
    // 4 in 9 vAMMs have a per-block band (partial closes happen there)
    p.fluct = true;
    let mut w = liq_weights();
    // the vAMM's owner changes fees, band and the funding TWAP interval in between (the 15-minute window of the liquidation
    // ratio is none of these settings)
    w.vcfg = 3;
    HistProp {
        id: "C06",
        level: "exploration",
        profile: p,
        weights: w,
        min_ops: 6,
        max_ops: (40, 100),
        cases: (24_000, 400_000),
        make: || Box::new(Mon06::default()),
        rule: "engine histories that bring positions near / below maintenance: whale trades sized by bisection so that a chosen trader's ratio lands at maintenance -30%..+10% (Squeeze), funding drains, oracle moved within / beyond 10% of spot on both sides, trades in one block and 15 min / hours apart (spot != TWAP), all maintenance / liquidation-fee / partial-ratio settings, callers = liquidator, stranger, owner, other traders, the trader itself. For every successful Liquidate the pre-state ratio is recomputed from API answers (OutputAmount, OutputTwap, SpotPrice, UnderlyingPrice, Position, cumulative fraction): PnL of smaller magnitude among spot and TWAP, r = trunc((M + pnl - F)*D/n), replaced by the oracle-priced ratio when |spot-oracle|/oracle >= 10% and higher; r must be <= maintenance. The same ratio is computed a second time with the position's 15-minute TWAP value recomputed by the harness from its own record of block-final reserves (constant-product quote per recorded block, time-weighted over the last 900 s, +-1 raw unit of slack) instead of the vAMM's OutputTwap answer; it must be <= maintenance as well. Payouts from dispatched transfers: position gone: liquidator gets floor(floor(Q*fee/D)/2), trader nothing, vault->fund = max(0, M + PnL - F) - liquidator fee (floored at 0); position remains: |size| falls by exactly floor(|size|*fraction/D) with the same sign, liquidator and fund get floor(floor(Q*fee/D)/2) each. Non-trivial: a history with a successful liquidation and an attempt within 2% of maintenance, or where the TWAP PnL is the chosen one, or where the oracle override applies. Distinct by digest of (cfg, ops).",
        assumptions: &["OutputAmount / UnderlyingPrice are the vAMM's API (checked by C17/C18); OutputTwap is used as answered and, independently, recomputed from the harness's record of block-final reserves; the ratio, the three-way choice and the comparison are recomputed independently"],
        eval_counter: None,
    }
}

// ------------------------------------------------------------------------------------------------ C07

#[derive(Default)]
pub struct Mon07 {
    /// spot price of each vAMM at the first moment of the current block (= end of the previous block)
    pref: Vec<u128>,
    lp: Option<LiqPre>,
    qualifies: bool,
    nontrivial_hits: u64,
    why: &'static str,
}

fn err_class(e: &str) -> &'static str {
    let l = e.to_lowercase();
    if l.contains("parsing") || l.contains("parse") {
        "parse"
    } else if l.contains("overflow") || l.contains("cannot sub") || l.contains("partial liquidation failure") {
        "arith"
    } else if l.contains("transfer failure") {
        "transfer"
    } else if l.contains("divide") || l.contains("devide") {
        "div0"
    } else if l.contains("panic") {
        "panic"
    } else if l.contains("overcollateralized") {
        "refused_as_healthy"
    } else {
        "other"
    }
}

impl Monitor for Mon07 {
    fn begin(&mut self, w: &mut World, _out: &mut Outcome) {
        self.pref = (0..w.vamms.len()).map(|v| w.spot(v)).collect();
    }
    fn before(&mut self, it: &mut Interp, act: &Act, pre: &Obs, out: &mut Outcome) -> Option<Violation> {
        self.lp = None;
        self.qualifies = false;
        if let Act::Liquidate { v, target, limit, .. } = act {
            let w = &it.w;
            let d = w.d;
            let lp = liq_pre(w, pre, *v, *target)?;
            let maint = S::pos(pre.ecfg.maintenance_margin_ratio.u128());
            let pr = &lp.pr;
            let pass = |c: bool, name: &'static str, out: &mut Outcome, why: &mut &'static str| {
                if !c && why.is_empty() {
                    *why = name;
                    out.count(&format!("precondition_false.{}", name));
                }
                c
            };
            self.why = "";
            let mut why = "";
            let mut ok = true;
            // no limit, or a limit every execution satisfies (a long's whole value is at least four times it / a short's at most
            // a quarter of it, measured on the vAMM's own quote for the whole position)
            let permissive = match pr.n_spot {
                Some(q) if *limit != 0 => {
                    if pr.long {
                        *limit <= q / 4
                    } else {
                        *limit / 4 >= q
                    }
                }
                _ => false,
            };
            if permissive {
                out.count("qualifying.permissive_nonzero_limit");
            }
            ok &= pass(*limit == 0 || permissive, "limit_nonzero", out, &mut why);
            // below maintenance by the vAMM's own answers, or by the 15-minute TWAP recomputed from the harness's record of
            // block-final reserves (whatever the one unit of slack)
            let below_by_record = ratio_by_harness_twap(w, pre, *v, pr).map(|(_, hi)| hi.lt(&maint)).unwrap_or(false);
            if below_by_record {
                out.count("below_maintenance_by_recomputed_twap");
            }
            ok &= pass(lp.ratio.as_ref().map(|r| r.0.lt(&maint)).unwrap_or(false) || below_by_record, "not_below_maintenance", out, &mut why);
            ok &= pass(pre.v[*v].state.open && pre.v[*v].registered, "closed_or_unregistered", out, &mut why);
            // "not already outside its per-block band": spot within [p(1-l), p(1+l)] of the previous block's final price, edges included
            let l = pre.v[*v].cfg.fluctuation_limit_ratio.u128();
            if l != 0 {
                let p0 = self.pref.get(*v).copied().unwrap_or(0);
                let lo = mul_div_floor(p0, d.saturating_sub(l), d) + if (cosmwasm_std::Uint256::from(p0) * cosmwasm_std::Uint256::from(d.saturating_sub(l))) % cosmwasm_std::Uint256::from(d) == cosmwasm_std::Uint256::zero() { 0 } else { 1 };
                let hi = mul_div_floor(p0, d + l, d);
                let spot = pre.v[*v].spot;
                let inside = spot >= lo && spot <= hi;
                ok &= pass(inside, "outside_band", out, &mut why);
                if inside && ok {
                    out.count("qualifying.band_configured");
                    if spot == lo || spot == hi {
                        out.count("qualifying.exactly_on_band_edge");
                    }
                }
            }
            ok &= pass(!pre.ecfg.liquidation_fee.is_zero(), "zero_fee_ratio", out, &mut why);
            let frac = pre.ecfg.partial_liquidation_ratio.u128();
            let q_full = pr.n_spot;
            ok &= pass(q_full.is_some(), "cannot_fill", out, &mut why);
            if frac != 0 {
                let part = mul_div_floor(pr.size, frac, d);
                let dir = if pr.long { margined_perp::margined_vamm::Direction::AddToAmm } else { margined_perp::margined_vamm::Direction::RemoveFromAmm };
                // a slice that rounds down to nothing is an empty trade: there is nothing the vAMM could fail to fill
                if part == 0 {
                    out.count("partial_slice_rounds_to_zero");
                }
                ok &= pass(part == 0 || it.output_amount(*v, dir, part).is_some(), "cannot_fill_partial", out, &mut why);
            }
            if let Some(q) = q_full {
                let p = pnl(pr.long, q, pr.notional);
                let bound = cosmwasm_std::Uint256::from(pr.margin) + p.mag + pr.funding.mag + cosmwasm_std::Uint256::from(q);
                ok &= pass(cosmwasm_std::Uint256::from(pre.bal[w.idx_fund()]) > bound, "fund_too_small", out, &mut why);
            }
            self.why = why;
            self.qualifies = ok;
            self.lp = Some(lp);
        }
        None
    }
    fn after(&mut self, w: &World, s: &Step, out: &mut Outcome) -> Option<Violation> {
        if let Act::NextBlock { .. } = s.act {
            self.pref = s.post.v.iter().map(|v| v.spot).collect();
        }
        let (v, target) = match s.act {
            Act::Liquidate { v, target, .. } => (*v, *target),
            _ => return None,
        };
        let lp = self.lp.clone()?;
        if !self.qualifies {
            return None;
        }
        out.count("qualifying_attempts");
        let pr = &lp.pr;
        let r = match lp.ratio.clone() {
            Some((r, _, _, _)) => r,
            // qualified through the recomputed TWAP only
            None => ratio_by_harness_twap(w, s.pre, v, &lp.pr).map(|(_, hi)| hi)?,
        };
        let frac = s.pre.ecfg.partial_liquidation_ratio.u128();
        let vault = s.pre.bal[w.idx_engine()];
        let d = w.d;
        let q = pr.n_spot.unwrap_or(0);
        let realised = pnl(pr.long, q, pr.notional);
        let equity = pr.equity(&realised);
        let remaining = if equity.is_neg() { 0 } else { equity.mag_u128().unwrap_or(u128::MAX) };
        let vault_short = vault < remaining;
        if r.is_neg() || vault_short || frac != 0 || w.cfg.real_feed {
            self.nontrivial_hits += 1;
            if r.is_neg() {
                out.count("qualifying.negative_ratio");
            }
            if vault_short {
                out.count("qualifying.vault_below_remaining_margin");
            }
            if frac != 0 {
                out.count("qualifying.partial_ratio_set");
            }
        }
        if s.res.ok {
            out.count("qualifying_succeeded");
            return None;
        }
        let half_full = fee(q, s.pre.ecfg.liquidation_fee.u128(), d) / 2;
        let part = mul_div_floor(pr.size, frac, d);
        // F2's exact condition, recomputed: the partial path is taken (|ratio| > fee ratio and a partial ratio is set)
        // and one of the unsigned subtractions of the partial reply underflows:
        //   margin < |realised| + penalty,  long: notional < slice + |realised|,  short: notional + |realised| < slice
        let f2_predicted = (|| -> Option<bool> {
            if frac == 0 || !r.abs().gt(&S::pos(s.pre.ecfg.liquidation_fee.u128())) {
                return Some(false);
            }
            let dir = if pr.long { margined_perp::margined_vamm::Direction::AddToAmm } else { margined_perp::margined_vamm::Direction::RemoveFromAmm };
            let slice: u128 = w
                .query::<cosmwasm_std::Uint128, _>(&w.vamms[v], &margined_perp::margined_vamm::QueryMsg::OutputAmount { direction: dir, amount: cosmwasm_std::Uint128::new(part) })
                .ok()?
                .u128();
            let realised = pr.pnl_spot()?.mul(&S::pos(frac)).div_trunc(&S::pos(d)).mag_u128()?;
            let penalty = fee(slice, s.pre.ecfg.liquidation_fee.u128(), d);
            let margin_fails = pr.margin < realised.saturating_add(penalty);
            // the open-notional formula of the position's own side (a short stays a short while it is being reduced, also
            // when a 100 % ratio reduces it to exactly zero)
            let long_arm = pr.long;
            let notional_fails = if long_arm { pr.notional < slice.saturating_add(realised) } else { pr.notional.saturating_add(realised) < slice };
            Some(margin_fails || notional_fails)
        })()
        .unwrap_or(false);
        Some(
            Violation::new(
                "undermargined_position_not_liquidatable",
                format!(
                    "Liquidate failed ({}) although ratio {} < maintenance {}, vAMM open+registered, fee ratio {}, fund balance {}, vault {}, partial ratio {}, position {}{} margin {} notional {} funding owed {} (target {} on vamm {})",
                    s.res.err,
                    r,
                    s.pre.ecfg.maintenance_margin_ratio,
                    s.pre.ecfg.liquidation_fee,
                    s.pre.bal[w.idx_fund()],
                    vault,
                    frac,
                    if pr.long { "" } else { "-" },
                    pr.size,
                    pr.margin,
                    pr.notional,
                    pr.funding,
                    w.traders[target],
                    v
                ),
            )
            .with("err_class", err_class(&s.res.err))
            .with("partial_ratio_set", frac != 0)
            .with("ratio_negative", r.is_neg())
            .with("real_feed", w.cfg.real_feed)
            .with("vault_short", vault_short)
            .with("full_fee_zero", half_full == 0)
            .with("partial_size_zero", frac != 0 && part == 0)
            .with("f2_predicted", f2_predicted),
        )
    }
    fn end(&mut self, _w: &World, out: &mut Outcome) {
        out.nontrivial = self.nontrivial_hits >= 1;
        out.summary = Some(json!({"nontrivial_qualifying_attempts": self.nontrivial_hits}));
    }
}

pub fn prop07() -> HistProp {
    let mut p = CfgProfile::general();
    p.fluct = true;
    p.real_feed = None;
    // caps may be lowered after a position was opened, whitelists edited: neither stands in the way of a liquidation
    p.caps = true;
    p.caps_light = true;
    let mut wts = liq_weights();
    wts.edge = 5;
    // the pauser halts / resumes trading in between: liquidations are not trading
    wts.pause = 2;
    wts.vcfg = 7;
    wts.whitelist = 2;
    HistProp {
        id: "C07",
        level: "exploration",
        profile: p,
        weights: wts,
        min_ops: 6,
        max_ops: (40, 100),
        cases: (24_000, 400_000),
        make: || Box::new(Mon07::default()),
        rule: "histories as in C06 with emphasis on deeply negative equity, vaults drained by profitable closes, every partial-liquidation ratio, small and large insurance fund. One-step liveness: if in the pre-state the recomputed liquidation ratio r < maintenance (strict), the vAMM is open and registered, OutputAmount answers for the whole (and, when a partial ratio is set, the partial) size, the spot price lies within [p(1-l), p(1+l)] of the previous block's final price p when a band l is configured (edges included; 4 in 9 vAMMs have a band, and whale orders sized to land exactly on the edge are generated), the liquidation fee ratio is non-zero and the fund's balance exceeds M + |PnL| + |F| + Q, then Liquidate{quote_asset_limit: 0} by the generated caller must succeed. Attempts with a false precondition are counted as such, not as passes. Non-trivial: a qualifying attempt with r < 0, or vault balance below the remaining margin, or a partial ratio set. Distinct by digest of (cfg, ops).",
        assumptions: &["the previous block's final price is recorded by the harness at every block boundary", "the fund bound M + |PnL| + |F| + Q is conservative (sufficient, not necessary)"],
        eval_counter: None,
    }
}
