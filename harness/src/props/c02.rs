//! C02 — engine positions mirror the vAMM's net position.
use super::histprop::HistProp;
use crate::hist::{size_s, Effect, Monitor, Step};
use crate::ops::{CfgProfile, Weights};
use crate::refmath::S;
use crate::run::{Outcome, Violation};
use crate::world::World;
use serde_json::json;

#[derive(Default)]
pub struct Mon {
    max_holders: usize,
    special: u64,
}

impl Monitor for Mon {
    fn after(&mut self, _w: &World, s: &Step, out: &mut Outcome) -> Option<Violation> {
        for (v, vo) in s.post.v.iter().enumerate() {
            let mut sum = S::zero();
            let mut holders = 0;
            for p in &s.post.pos[v] {
                let sz = size_s(p);
                if !sz.is_zero() {
                    holders += 1;
                }
                sum = sum.add(&sz);
            }
            self.max_holders = self.max_holders.max(holders);
            let total = S::from_integer(vo.state.total_position_size);
            if sum != total {
                let path = format!("{:?}", s.effect);
                return Some(
                    Violation::new(
                        "sum_of_positions_vs_net_position",
                        format!(
                            "vamm {}: sum of trader sizes {} != vAMM net position {} after {} ({}; ok={}); sizes before {:?} after {:?}",
                            v,
                            sum,
                            total,
                            s.act.name(),
                            path,
                            s.res.ok,
                            s.pre.pos[v].iter().map(|p| size_s(p).to_string()).collect::<Vec<_>>(),
                            s.post.pos[v].iter().map(|p| size_s(p).to_string()).collect::<Vec<_>>()
                        ),
                    )
                    .with("act", s.act.name())
                    .with("effect", path)
                    .with("ok", s.res.ok)
                    .with("truncate", 1),
                );
            }
        }
        out.count("invariant_checks");
        // bookkeeping only: a stored direction that contradicts the sign of the size (no statement talks about it,
        // but such a record makes the next close trade the wrong way; see F14)
        for pv in &s.post.pos {
            for p in pv.iter().flatten() {
                let long = p.direction == margined_perp::margined_vamm::Direction::AddToAmm;
                if !p.size.is_zero() && long == p.size.is_negative() {
                    out.count("direction_contradicts_size_sign");
                }
            }
        }
        if matches!(
            s.effect,
            Effect::Reversed | Effect::PartialClosed | Effect::LiqPartial | Effect::LiqFull
        ) {
            self.special += 1;
        }
        None
    }
    fn end(&mut self, _w: &World, out: &mut Outcome) {
        out.nontrivial = self.max_holders >= 2 && self.special >= 1;
        out.summary = Some(json!({"max_simultaneous_holders": self.max_holders, "reversal_partial_or_liquidation_steps": self.special}));
    }
}

pub fn prop() -> HistProp {
    HistProp {
        id: "C02",
        level: "exploration",
        profile: CfgProfile::general(),
        weights: {
            let mut w = Weights::trading();
            // funding drains: the oracle is set so that the next settlement consumes about half / all / several times a holder's margin
            w.drain = 3;
            // the owner changes ratios in between (incl. values the engine must refuse)
            w.ecfg = 2;
            w.rewire = 2;
            w.vcfg = 1;
            w.setopen = 1;
            w.intruder = 2;
            w
        },
        min_ops: 4,
        max_ops: (40, 100),
        cases: (12_000, 400_000),
        make: || Box::new(Mon::default()),
        rule: "generated deployments (cw20 6/9 decimals or native, 1-2 vAMMs, fees/ratios/partial-liquidation ratio/fluctuation limit generated) and histories of 4-40 (thorough: 100) engine operations by five traders, a liquidator and others, with directed whale trades (PushPrice), squeezes of a chosen trader to the maintenance boundary, oracle moves, funding and block boundaries. After every transaction, successful or not, for every vAMM: sum over all traders of the engine's Position.size (absent = 0) equals the vAMM's State.total_position_size. Non-trivial: at least two traders held positions on one vAMM simultaneously and the history contains a reversal, partial close, or full/partial liquidation (classified from the observable position change). Distinct by digest of (cfg, ops).",
        assumptions: &["all accounts that ever trade are the five generated traders, so the sum over them is the sum over all traders"],
        eval_counter: None,
    }
}
