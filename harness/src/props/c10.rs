//! C10 — one account's transaction never alters another trader's position; queries change nothing.
use super::histprop::HistProp;
use crate::hist::{Act, Monitor, Step};
use crate::ops::{CfgProfile, Weights};
use crate::run::{Outcome, Violation};
use crate::world::{World, N_TRADERS};
use margined_perp::margined_engine as eng;
use margined_perp::margined_fee_pool as fp;
use margined_perp::margined_insurance_fund as fund;
use margined_perp::margined_vamm as vamm;
use serde_json::json;
use std::collections::BTreeSet;

#[derive(Default)]
pub struct Mon {
    max_holders: usize,
    senders_ok: BTreeSet<String>,
    ok_txs: u64,
    battery_runs: u64,
}

/// every query variant of every contract; answers are ignored, only the storage dump matters
fn query_battery(w: &World) {
    let v0 = w.vamms[0].to_string();
    let t0 = w.traders[0].clone();
    let e = &w.engine;
    let _ = w.query::<serde_json::Value, _>(e, &eng::QueryMsg::Config {});
    let _ = w.query::<serde_json::Value, _>(e, &eng::QueryMsg::State {});
    let _ = w.query::<serde_json::Value, _>(e, &eng::QueryMsg::GetPauser {});
    let _ = w.query::<serde_json::Value, _>(e, &eng::QueryMsg::IsWhitelisted { address: t0.clone() });
    let _ = w.query::<serde_json::Value, _>(e, &eng::QueryMsg::GetWhitelist {});
    for t in &w.traders {
        let _ = w.query::<serde_json::Value, _>(e, &eng::QueryMsg::Position { vamm: v0.clone(), trader: t.clone() });
        let _ = w.query::<serde_json::Value, _>(e, &eng::QueryMsg::AllPositions { trader: t.clone() });
        for o in [eng::PnlCalcOption::SpotPrice, eng::PnlCalcOption::Twap, eng::PnlCalcOption::Oracle] {
            let _ = w.query::<serde_json::Value, _>(e, &eng::QueryMsg::UnrealizedPnl { vamm: v0.clone(), trader: t.clone(), calc_option: o });
        }
        let _ = w.query::<serde_json::Value, _>(e, &eng::QueryMsg::MarginRatio { vamm: v0.clone(), trader: t.clone() });
        let _ = w.query::<serde_json::Value, _>(e, &eng::QueryMsg::FreeCollateral { vamm: v0.clone(), trader: t.clone() });
        let _ = w.query::<serde_json::Value, _>(e, &eng::QueryMsg::BalanceWithFundingPayment { trader: t.clone() });
        let _ = w.query::<serde_json::Value, _>(e, &eng::QueryMsg::PositionWithFundingPayment { vamm: v0.clone(), trader: t.clone() });
    }
    let _ = w.query::<serde_json::Value, _>(e, &eng::QueryMsg::CumulativePremiumFraction { vamm: v0.clone() });
    for va in &w.vamms {
        use margined_perp::margined_vamm::Direction::*;
        let a = cosmwasm_std::Uint128::new(w.d);
        let qs = vec![
            vamm::QueryMsg::Config {},
            vamm::QueryMsg::State {},
            vamm::QueryMsg::GetOwner {},
            vamm::QueryMsg::InputPrice { direction: AddToAmm, amount: a },
            vamm::QueryMsg::OutputPrice { direction: RemoveFromAmm, amount: a },
            vamm::QueryMsg::InputAmount { direction: RemoveFromAmm, amount: a },
            vamm::QueryMsg::OutputAmount { direction: AddToAmm, amount: a },
            vamm::QueryMsg::InputTwap { direction: AddToAmm, amount: a },
            vamm::QueryMsg::OutputTwap { direction: AddToAmm, amount: a },
            vamm::QueryMsg::SpotPrice {},
            vamm::QueryMsg::TwapPrice { interval: 900 },
            vamm::QueryMsg::UnderlyingPrice {},
            vamm::QueryMsg::UnderlyingTwapPrice { interval: 900 },
            vamm::QueryMsg::CalcFee { quote_asset_amount: a },
            vamm::QueryMsg::IsOverSpreadLimit {},
            vamm::QueryMsg::IsOverFluctuationLimit { direction: AddToAmm, base_asset_amount: a },
        ];
        for q in qs {
            let _ = w.query::<serde_json::Value, _>(va, &q);
        }
    }
    let f = &w.fund;
    let _ = w.query::<serde_json::Value, _>(f, &fund::QueryMsg::Config {});
    let _ = w.query::<serde_json::Value, _>(f, &fund::QueryMsg::GetOwner {});
    let _ = w.query::<serde_json::Value, _>(f, &fund::QueryMsg::IsVamm { vamm: v0.clone() });
    let _ = w.query::<serde_json::Value, _>(f, &fund::QueryMsg::GetAllVamm { limit: None });
    let _ = w.query::<serde_json::Value, _>(f, &fund::QueryMsg::GetAllVammStatus { limit: None });
    let _ = w.query::<serde_json::Value, _>(f, &fund::QueryMsg::GetVammStatus { vamm: v0.clone() });
    let p = &w.fee_pool;
    let _ = w.query::<serde_json::Value, _>(p, &fp::QueryMsg::Config {});
    let _ = w.query::<serde_json::Value, _>(p, &fp::QueryMsg::GetOwner {});
    let _ = w.query::<serde_json::Value, _>(p, &fp::QueryMsg::GetTokenLength {});
    let _ = w.query::<serde_json::Value, _>(p, &fp::QueryMsg::GetTokenList { limit: None });
}

impl Monitor for Mon {
    fn after(&mut self, w: &World, s: &Step, out: &mut Outcome) -> Option<Violation> {
        if matches!(s.act, Act::NextBlock { .. }) {
            return None;
        }
        let exempt: Option<(usize, usize)> = match s.act {
            Act::Liquidate { v, target, .. } => Some((*v, *target)),
            // a raw Liquidate message names its target explicitly
            Act::EngineAdmin { msg: eng::ExecuteMsg::Liquidate { vamm, trader, .. }, .. } => {
                match (w.vamms.iter().position(|a| a.as_str() == vamm), w.traders.iter().position(|t| t == trader)) {
                    (Some(v), Some(t)) => Some((v, t)),
                    _ => None,
                }
            }
            _ => None,
        };
        if let Act::EngineAdmin { msg, .. } = s.act {
            if matches!(msg, eng::ExecuteMsg::DepositMargin { .. } | eng::ExecuteMsg::WithdrawMargin { .. } | eng::ExecuteMsg::ClosePosition { .. } | eng::ExecuteMsg::OpenPosition { .. } | eng::ExecuteMsg::Liquidate { .. }) {
                out.count("aliased_address_attempts");
                if s.pre.pos.iter().any(|pv| pv[crate::world::ALIAS_VICTIM].is_some()) {
                    out.count("aliased_address_attempts_with_victim_position");
                }
            }
        }
        for v in 0..w.vamms.len() {
            let mut holders = 0;
            for t in 0..N_TRADERS {
                if s.post.pos[v][t].is_some() {
                    holders += 1;
                }
                if w.traders[t] == s.sender || exempt == Some((v, t)) {
                    continue;
                }
                if s.pre.pos[v][t] != s.post.pos[v][t] {
                    return Some(
                        Violation::new(
                            "other_traders_position_changed",
                            format!(
                                "{} sent by {} changed the position of {} on vamm {}: {:?} -> {:?}",
                                s.act.name(),
                                s.sender,
                                w.traders[t],
                                v,
                                s.pre.pos[v][t],
                                s.post.pos[v][t]
                            ),
                        )
                        .with("act", s.act.name())
                        .with("effect", format!("{:?}", s.effect)),
                    );
                }
            }
            self.max_holders = self.max_holders.max(holders);
        }
        out.count("position_isolation_checks");
        if s.res.ok && s.act.is_engine_tx() {
            self.senders_ok.insert(s.sender.to_string());
            self.ok_txs += 1;
        }
        // queries never change state
        if s.i % 5 == 0 {
            let d0 = w.dump();
            query_battery(w);
            self.battery_runs += 1;
            out.count("query_battery_runs");
            if w.dump() != d0 {
                return Some(Violation::new("query_changed_state", "the storage dump differs after issuing the query battery".into()));
            }
        }
        None
    }
    fn end(&mut self, _w: &World, out: &mut Outcome) {
        out.nontrivial = self.max_holders >= 3 && self.ok_txs >= 5 && self.senders_ok.len() >= 3;
        out.summary = Some(json!({"max_simultaneous_positions_on_a_vamm": self.max_holders, "successful_engine_txs": self.ok_txs, "distinct_successful_senders": self.senders_ok.len(), "query_batteries": self.battery_runs}));
    }
}

pub fn prop() -> HistProp {
    HistProp {
        id: "C10",
        level: "exploration",
        profile: {
            let mut p = CfgProfile::general();
            p.long_names = true;
            p
        },
        weights: {
            let mut w = Weights::trading();
            w.alias = 8;
            w.rewire = 1;
            w.intruder = 2;
            // markets are closed and re-opened, the engine paused, registrations dropped and the fund's emergency shutdown run in
            // between (a handler that relaxes a check once a market is shut must still not reach another trader's record)
            w.setopen = 2;
            w.shutdown = 1;
            w.pause = 1;
            w.register = 1;
            w
        },
        min_ops: 6,
        max_ops: (40, 100),
        cases: (10_000, 300_000),
        make: || Box::new(Mon::default()),
        rule: "engine histories as in C02. Every trader's Position (all eight fields, or absent) on every vAMM is read before and after each transaction: for a transaction sent by account a the positions of all traders other than a are identical, except the position named by a Liquidate. The histories include adversarial addressing: one trader is named \"0\" + another trader's name, and that other trader sends Deposit/Withdraw/Close/Open/Liquidate messages naming the address \"<vamm>0\" (which aliases the first one's position key if keys are built by concatenation); two other traders have 44-byte addresses that differ only in their last byte (which collide if keys keep a fixed-width prefix of the address). Every fifth step all query variants of all contracts are issued and the full storage dump must be unchanged. Non-trivial: at least 3 traders held positions on one vAMM at the same time and at least 5 successful engine transactions by at least 3 different senders. Distinct by digest of (cfg, ops).",
        assumptions: &[],
        eval_counter: None,
    }
}
