//! C01 — vAMM curve conservation.
use super::curve::*;
use crate::refmath::{scaled_k, S};
use crate::run::{Ctx, Outcome, Property, Tier, Violation};
use crate::vsim::VSim;
use cosmwasm_std::Uint256;
use proptest::prelude::*;
use proptest::strategy::BoxedStrategy;
use serde_json::json;

pub struct C01;

impl Property for C01 {
    type Case = CurveCase;
    fn id(&self) -> &'static str {
        "C01"
    }
    fn strategy(&self, tier: Tier) -> BoxedStrategy<CurveCase> {
        case_strategy(tier.pick(40, 80)).boxed()
    }
    fn cases(&self, tier: Tier) -> u32 {
        tier.pick(500_000, 10_000_000)
    }
    fn rule(&self) -> String {
        "vAMM-only deployments (decimals 6-12, reserves 1 unit .. 10^10 units, not round; one pool in ten is binary-granular: its quote reserve is a multiple of 2^32 or 2^64 raw units, and one amount class has the same granularity, so that all low words of the intermediates stay zero) driven through the real instantiate/execute/query entry points with histories of 1-40 (thorough: 80) swap_input/swap_output calls in both directions, amounts from 1 raw unit to beyond the reserve, plus 'return' swaps that bring the net position back to an earlier value; before 7-8% of the swaps the owner closes and re-opens the market, points the margin-engine setting elsewhere and back, or updates a fee ratio (none of which is a trade: reserves and net position must be exactly what they were). After every accepted swap: floor(x*y/D) non-decreasing (256-bit), base reserve + net position = initial base reserve, and for every earlier state with the same net position and base reserve >= 1 unit the quote reserve is not smaller; a rejected swap leaves the raw storage unchanged. Non-trivial: >= 2 accepted swaps, >= 1 with non-zero division remainder, >= 1 revisit of an earlier net position. Distinct by digest of (reserves, ops).".into()
    }
    fn assumptions(&self) -> Vec<String> {
        vec![
            "the return clause is asserted only while the base reserve is at least one whole unit (below that the scaled product does not imply it; counted as revisit_unasserted)".into(),
            "cosmwasm_std::testing mock dependencies stand in for the chain; the sender plays the margin engine".into(),
        ]
    }
    fn run_case(&self, c: &CurveCase, ctx: &Ctx) -> Outcome {
        let mut out = Outcome::default();
        let mut sim = match VSim::new(c.decimals, c.x0, c.y0, 0, 0, 0) {
            Ok(s) => s,
            Err(e) => {
                out.harness_error = Some(format!("vAMM instantiate failed: {}", e));
                return out;
            }
        };
        let d = sim.d;
        let mut seen: Vec<(S, u128, u128)> = vec![(S::zero(), c.x0, c.y0)];
        let (mut accepted, mut rem_nonzero, mut revisits) = (0u64, 0u64, 0u64);
        let mut trace = vec![];
        for (i, op) in c.swaps.iter().enumerate() {
            if op.new_block {
                sim.next_block(15);
            }
            if let Some(what) = super::curve::admin_churn(&mut sim, op.admin) {
                out.violation = ctx.filter(&mut out, Violation::new("owner_action_changed_curve", what).at(i));
                if out.violation.is_some() {
                    break;
                }
            }
            if op.admin != 0 {
                out.count("owner_actions_between_swaps");
            }
            let st0 = sim.state();
            let r = resolve(op, &st0, d, &seen);
            let dump0 = sim.dump();
            let k0 = scaled_k(st0.quote_asset_reserve.u128(), st0.base_asset_reserve.u128(), d);
            // a third of the swaps carry the caller's limit at / one unit beside / far from the quoted amount: a swap a limit lets
            // through is still a swap (the curve must not pay for the caller's limit)
            let lim = if op.k % 3 == 0 && op.limit_mode != 0 {
                match sim.query::<cosmwasm_std::Uint128>(super::curve::quote_query(&r)).ok().map(|x| x.u128()) {
                    Some(e) => match op.limit_mode {
                        1 => e.saturating_sub(1),
                        2 => e,
                        3 => e.saturating_add(1),
                        4 => e / 2,
                        // the extremes of the type: the largest number and one raw unit
                        6 => u128::MAX,
                        7 => 1,
                        _ => e.saturating_mul(2).saturating_add(7),
                    },
                    None => 0,
                }
            } else {
                0
            };
            if lim != 0 {
                out.count("swaps_with_limit");
            }
            let res = exec_swap(&mut sim, &r, lim);
            let st1 = sim.state();
            let mut v: Option<Violation> = None;
            match &res {
                Err(e) => {
                    out.count("rejected");
                    if sim.dump() != dump0 {
                        v = Some(Violation::new("rejected_swap_changed_state", format!("swap {:?} failed ({}) but storage changed", r, e)));
                    }
                }
                Ok(_) => {
                    accepted += 1;
                    out.count("accepted");
                    if r.is_return {
                        out.count("return_swaps");
                    }
                    let (x1, y1) = (st1.quote_asset_reserve.u128(), st1.base_asset_reserve.u128());
                    let k1 = scaled_k(x1, y1, d);
                    let t1 = S::from_integer(st1.total_position_size);
                    let new_side = if r.input { x1 } else { y1 };
                    if new_side != 0 && (k0 * Uint256::from(d)) % Uint256::from(new_side) != Uint256::zero() {
                        rem_nonzero += 1;
                        out.count("remainder_nonzero");
                    }
                    if k1 < k0 {
                        v = Some(
                            Violation::new(
                                "scaled_product_decreased",
                                format!("k {} -> {} after {:?}; reserves ({},{}) -> ({},{})", k0, k1, r, st0.quote_asset_reserve, st0.base_asset_reserve, x1, y1),
                            )
                            .with("kind", if r.input { "input" } else { "output" })
                            .with("add", r.add),
                        );
                    } else if S::pos(y1).add(&t1) != S::pos(c.y0) {
                        v = Some(Violation::new(
                            "base_plus_net_position",
                            format!("base reserve {} + net position {} != initial base reserve {} after {:?}", y1, t1, c.y0, r),
                        ));
                    } else {
                        for (t, x, y) in &seen {
                            if *t == t1 {
                                revisits += 1;
                                if *y >= d {
                                    out.count("revisit_asserted");
                                    if x1 < *x {
                                        v = Some(
                                            Violation::new(
                                                "return_took_quote_out",
                                                format!("net position back at {} (base reserve {}): quote reserve {} < {} it had then; last swap {:?}", t1, y, x1, x, r),
                                            )
                                            .with("kind", if r.input { "input" } else { "output" }),
                                        );
                                        break;
                                    }
                                } else {
                                    out.count("revisit_unasserted");
                                }
                            }
                        }
                    }
                    seen.push((t1, x1, y1));
                }
            }
            if ctx.want_summary {
                trace.push(json!({"swap": format!("{:?}", r), "ok": res.is_ok(), "x": st1.quote_asset_reserve, "y": st1.base_asset_reserve, "T": st1.total_position_size.to_string()}));
            }
            if let Some(v) = v {
                if let Some(v) = ctx.filter(&mut out, v.at(i)) {
                    out.violation = Some(v);
                    break;
                }
            }
        }
        out.nontrivial = accepted >= 2 && rem_nonzero >= 1 && revisits >= 1;
        if ctx.want_summary {
            out.summary = Some(json!({"accepted": accepted, "remainder_nonzero": rem_nonzero, "revisits": revisits, "trace": trace}));
        }
        out
    }
}
