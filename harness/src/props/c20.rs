//! C20 — risk caps and configuration bounds hold under any update sequence.
use super::histprop::HistProp;
use crate::hist::{size_s, Act, Effect, Interp, Monitor, Obs, Step};
use crate::ops::{CfgProfile, Weights};
use crate::run::{Outcome, Violation};
use crate::world::{u, World};
use margined_perp::margined_engine as eng;
use margined_perp::margined_insurance_fund as fund;
use margined_perp::margined_vamm as vamm;
use serde_json::json;

#[derive(Default)]
pub struct Mon {
    whitelisted: bool,
    twin_ok: Option<bool>,
    interesting: u64,
    deploy_order_done: bool,
}

/// Deployment-order experiment (what-if, once per history): a second insurance fund is set up *before* its engine, naming the
/// address the engine is going to have; the owner lists every market of the world (their decimals differ in some worlds)
/// while nothing answers at that address; then the engine is deployed there. Whatever the fund accepted or refused meanwhile,
/// every vAMM it lists afterwards must have that engine's decimals.
fn deploy_order_experiment(w: &mut World, out: &mut Outcome) -> Option<Violation> {
    use cw_multi_test::Executor;
    let snap = w.snapshot();
    let owner = cosmwasm_std::Addr::unchecked(&w.owner);
    let res = (|| -> Option<Violation> {
        // the address of the next contract but one (cw-multi-test numbers contracts consecutively)
        let probe = w.app.instantiate_contract(w.fund_code, owner.clone(), &fund::InstantiateMsg { engine: "placeholder".into() }, &[], "probe", None).ok()?;
        let k: u64 = probe.as_str().strip_prefix("contract")?.parse().ok()?;
        let future_engine = format!("contract{}", k + 2);
        let early_fund = w.app.instantiate_contract(w.fund_code, owner.clone(), &fund::InstantiateMsg { engine: future_engine.clone() }, &[], "early_fund", None).ok()?;
        let mut markets: Vec<cosmwasm_std::Addr> = w.vamms.clone();
        markets.extend(w.alien_vamm.clone());
        let mut accepted = 0;
        for m in &markets {
            if w.app.execute_contract(owner.clone(), early_fund.clone(), &fund::ExecuteMsg::AddVamm { vamm: m.to_string() }, &[]).is_ok() {
                accepted += 1;
            }
        }
        let collateral = match &w.token {
            Some(t) => t.to_string(),
            None => crate::world::NATIVE_DENOM.to_string(),
        };
        let ecfg: eng::ConfigResponse = w.query(&w.engine, &eng::QueryMsg::Config {}).ok()?;
        let engine2 = w
            .app
            .instantiate_contract(
                w.engine_code,
                owner.clone(),
                &eng::InstantiateMsg {
                    pauser: w.pauser.clone(),
                    insurance_fund: early_fund.to_string(),
                    fee_pool: w.fee_pool.to_string(),
                    eligible_collateral: collateral,
                    initial_margin_ratio: u(ecfg.decimals.u128() / 10),
                    maintenance_margin_ratio: u(ecfg.decimals.u128() / 20),
                    liquidation_fee: u(ecfg.decimals.u128() / 20),
                },
                &[],
                "engine2",
                None,
            )
            .ok()?;
        if engine2.as_str() != future_engine {
            return None;
        }
        out.count("deploy_order_experiments");
        if accepted > 0 {
            out.count("deploy_order_listings_accepted_early");
        }
        let e2: eng::ConfigResponse = w.query(&engine2, &eng::QueryMsg::Config {}).ok()?;
        let listed: fund::AllVammResponse = w.query(&early_fund, &fund::QueryMsg::GetAllVamm { limit: None }).ok()?;
        for a in listed.vamm_list {
            let c: vamm::ConfigResponse = w.query(&a, &vamm::QueryMsg::Config {}).ok()?;
            if c.decimals != e2.decimals {
                return Some(
                    Violation::new(
                        "registered_vamm_with_other_decimals",
                        format!("a fund set up before its engine lists vAMM {} with decimals {} although its engine (deployed afterwards at the address the fund was given) uses {}", a, c.decimals, e2.decimals),
                    )
                    .with("deploy_order", true),
                );
            }
        }
        None
    })();
    w.restore(&snap);
    res
}

fn is_whitelisted(w: &World, who: &str) -> bool {
    w.query::<bool, _>(&w.engine, &eng::QueryMsg::IsWhitelisted { address: who.to_string() }).unwrap_or(false)
}

fn config_invariants(w: &World, o: &Obs) -> Option<Violation> {
    let d = w.d;
    let e = &o.ecfg;
    let chk = |name: &str, x: u128| if x > d { Some(Violation::new("ratio_above_one", format!("stored {} = {} > D = {}", name, x, d)).with("field", name)) } else { None };
    if let Some(v) = chk("initial_margin_ratio", e.initial_margin_ratio.u128())
        .or_else(|| chk("maintenance_margin_ratio", e.maintenance_margin_ratio.u128()))
        .or_else(|| chk("partial_liquidation_ratio", e.partial_liquidation_ratio.u128()))
        .or_else(|| chk("liquidation_fee", e.liquidation_fee.u128()))
    {
        return Some(v);
    }
    if e.maintenance_margin_ratio > e.initial_margin_ratio {
        return Some(Violation::new(
            "maintenance_above_initial",
            format!("maintenance ratio {} > initial ratio {}", e.maintenance_margin_ratio, e.initial_margin_ratio),
        ));
    }
    for (i, v) in o.v.iter().enumerate() {
        if let Some(x) = chk("toll_ratio", v.cfg.toll_ratio.u128())
            .or_else(|| chk("spread_ratio", v.cfg.spread_ratio.u128()))
            .or_else(|| chk("fluctuation_limit_ratio", v.cfg.fluctuation_limit_ratio.u128()))
        {
            return Some(x);
        }
        let t = v.cfg.spot_price_twap_interval;
        if !(60..=604800).contains(&t) {
            return Some(Violation::new("twap_interval_out_of_range", format!("vamm {}: spot_price_twap_interval = {}", i, t)));
        }
    }
    // registry: only vAMMs with the engine's decimals
    if let Ok(all) = w.query::<fund::AllVammResponse, _>(&w.fund, &fund::QueryMsg::GetAllVamm { limit: None }) {
        for a in all.vamm_list {
            if let Ok(c) = w.query::<vamm::ConfigResponse, _>(&a, &vamm::QueryMsg::Config {}) {
                if c.decimals != o.ecfg.decimals {
                    return Some(Violation::new(
                        "registered_vamm_with_other_decimals",
                        format!("registered vAMM {} has decimals {} but the engine uses {}", a, c.decimals, o.ecfg.decimals),
                    ));
                }
            }
        }
    }
    None
}

impl Monitor for Mon {
    fn before(&mut self, it: &mut Interp, act: &Act, pre: &Obs, out: &mut Outcome) -> Option<Violation> {
        self.twin_ok = None;
        self.whitelisted = false;
        if !self.deploy_order_done {
            self.deploy_order_done = true;
            if let Some(v) = deploy_order_experiment(&mut it.w, out) {
                return Some(v);
            }
        }
        if let Act::Open { t, v, .. } = act {
            let who = it.w.traders[*t].clone();
            self.whitelisted = is_whitelisted(&it.w, &who);
            let vc = &pre.v[*v].cfg;
            if self.whitelisted && (!vc.base_asset_holding_cap.is_zero() || !vc.open_interest_notional_cap.is_zero()) {
                // exemption: what the same call does on the same state with both caps removed
                let snap = it.w.snapshot();
                let owner = it.w.owner.clone();
                let va = it.w.vamms[*v].clone();
                let r0 = it.w.exec(
                    &owner,
                    &va,
                    &vamm::ExecuteMsg::UpdateConfig {
                        base_asset_holding_cap: Some(u(0)),
                        open_interest_notional_cap: Some(u(0)),
                        toll_ratio: None,
                        spread_ratio: None,
                        fluctuation_limit_ratio: None,
                        margin_engine: None,
                        insurance_fund: None,
                        pricefeed: None,
                        spot_price_twap_interval: None,
                    },
                    &[],
                    None,
                );
                if r0.ok {
                    self.twin_ok = Some(it.exec_act(act).ok);
                }
                it.w.restore(&snap);
            }
        }
        None
    }
    fn after(&mut self, w: &World, s: &Step, out: &mut Outcome) -> Option<Violation> {
        if let Some(v) = config_invariants(w, s.post) {
            return Some(v.with("act", s.act.name()));
        }
        out.count("config_invariant_checks");
        match s.act {
            Act::Open { t, v, .. } => {
                let vc = &s.pre.v[*v].cfg;
                let (oi_cap, hold_cap) = (vc.open_interest_notional_cap.u128(), vc.base_asset_holding_cap.u128());
                let (a, b) = (size_s(&s.pre.pos[*v][*t]), size_s(&s.post.pos[*v][*t]));
                let increasing = s.res.ok && (b.mag > a.mag || (!a.is_zero() && !b.is_zero() && a.is_neg() != b.is_neg()));
                if self.whitelisted {
                    if let Some(twin) = self.twin_ok {
                        out.count("whitelisted_exemption_checks");
                        if twin && !s.res.ok {
                            return Some(Violation::new(
                                "whitelisted_trader_capped",
                                format!("OpenPosition by whitelisted {} fails ({}) but succeeds on the same state with both caps removed", w.traders[*t], s.res.err),
                            ));
                        }
                        if twin && s.res.ok {
                            let oi = s.post.estate.open_interest_notional.u128();
                            if (oi_cap > 0 && oi > oi_cap) || (hold_cap > 0 && b.mag > cosmwasm_std::Uint256::from(hold_cap)) {
                                self.interesting += 1;
                                out.count("whitelisted_trade_beyond_cap");
                            }
                        }
                    }
                } else if increasing {
                    let oi = s.post.estate.open_interest_notional.u128();
                    if oi_cap > 0 {
                        out.count("oi_cap_checks");
                        if oi > oi_cap {
                            return Some(
                                Violation::new(
                                    "open_interest_above_cap",
                                    format!("position-increasing OpenPosition ({:?}) by non-whitelisted {} left open interest {} above the cap {}", s.effect, w.traders[*t], oi, oi_cap),
                                )
                                .with("effect", format!("{:?}", s.effect)),
                            );
                        }
                        if oi.saturating_mul(100) >= oi_cap.saturating_mul(90) {
                            self.interesting += 1;
                            out.count("trade_near_oi_cap");
                        }
                    }
                    if hold_cap > 0 {
                        out.count("holding_cap_checks");
                        if b.mag > cosmwasm_std::Uint256::from(hold_cap) {
                            return Some(
                                Violation::new(
                                    "holding_above_cap",
                                    format!("position-increasing OpenPosition ({:?}) by non-whitelisted {} left |size| {} above the holding cap {}", s.effect, w.traders[*t], b, hold_cap),
                                )
                                .with("effect", format!("{:?}", s.effect)),
                            );
                        }
                        if b.mag * cosmwasm_std::Uint256::from(100u8) >= cosmwasm_std::Uint256::from(hold_cap) * cosmwasm_std::Uint256::from(90u8) {
                            self.interesting += 1;
                            out.count("trade_near_holding_cap");
                        }
                    }
                }
                if !s.res.ok && s.res.err.contains("cap") {
                    self.interesting += 1;
                    out.count("trade_rejected_for_cap");
                }
                let _ = Effect::None;
            }
            Act::EngineAdmin { msg: eng::ExecuteMsg::UpdateConfig { initial_margin_ratio, maintenance_margin_ratio, partial_liquidation_ratio, liquidation_fee, .. }, .. } => {
                if s.res.ok {
                    out.count("engine_config_updates_accepted");
                    let d = w.d;
                    let at_bound = [initial_margin_ratio, maintenance_margin_ratio, partial_liquidation_ratio, liquidation_fee]
                        .iter()
                        .any(|x| x.map(|x| x.u128() == d || x.is_zero()).unwrap_or(false));
                    if at_bound || (initial_margin_ratio.is_some() && maintenance_margin_ratio.is_some()) {
                        self.interesting += 1;
                        out.count("update_at_bound_or_two_fields");
                    }
                } else {
                    out.count("engine_config_updates_rejected");
                }
            }
            Act::VammAdmin { msg: vamm::ExecuteMsg::UpdateConfig { .. }, .. } => {
                out.count(if s.res.ok { "vamm_config_updates_accepted" } else { "vamm_config_updates_rejected" });
            }
            Act::FundAdmin { msg: fund::ExecuteMsg::AddVamm { .. }, .. } => {
                out.count(if s.res.ok { "add_vamm_accepted" } else { "add_vamm_rejected" });
            }
            _ => {}
        }
        None
    }
    fn end(&mut self, _w: &World, out: &mut Outcome) {
        out.nontrivial = self.interesting >= 1;
        out.summary = Some(json!({"interesting_events": self.interesting}));
    }
}

pub fn prop() -> HistProp {
    let mut p = CfgProfile::general();
    p.caps = true;
    p.alien = true;
    p.fluct = false;
    let mut w = Weights::trading();
    w.open = 34;
    w.ecfg = 10;
    w.vcfg = 12;
    w.whitelist = 5;
    // the pauser role changes hands: to a trading account and back (holding a role is not being whitelisted)
    w.handover = 2;
    w.register = 3;
    w.alien = 3;
    w.squeeze = 2;
    w.liq_weakest = 3;
    w.funding = 3;
    HistProp {
        id: "C20",
        level: "exploration",
        profile: p,
        weights: w,
        min_ops: 5,
        max_ops: (40, 100),
        cases: (20_000, 400_000),
        make: || Box::new(Mon::default()),
        rule: "histories interleaving engine UpdateConfig (single fields, initial+maintenance together, values 0 / 1 / D-1 / D / D+1 / 2D / relative to the other ratio +-1), vAMM UpdateConfig (toll, spread, fluctuation limit, caps around the current exposure, TWAP interval 0/59/60/604800/604801), whitelist edits, AddVamm/RemoveVamm of matching vAMMs and of a vAMM with different decimals, with trades by whitelisted and non-whitelisted traders. After every successful position-increasing OpenPosition by a non-whitelisted trader on a vAMM with a non-zero cap: engine State.open_interest_notional <= cap, |size| <= holding cap. For a whitelisted trader the same call is also run on a what-if twin with both caps set to 0: success there implies success here. After every step: the seven stored ratios <= D, maintenance <= initial, 60 <= TWAP interval <= 604800, every vAMM in GetAllVamm has the engine's decimals. Once per history, on a what-if copy: a second insurance fund is set up before its engine (naming the address the engine will get), the owner lists every market of the world there, the engine is then deployed at that address, and every vAMM that fund lists must have that engine's decimals. Non-trivial: a trade ending within 10% of a cap or rejected for a cap or a whitelisted trade beyond a cap, or an accepted update at a bound / of two interdependent fields. Distinct by digest of (cfg, ops).",
        assumptions: &[],
        eval_counter: None,
    }
}
