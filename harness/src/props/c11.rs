//! C11 — funding settles on schedule, exactly, and is charged once per position.
use super::histprop::HistProp;
use crate::hist::{Act, Effect, Interp, Monitor, Obs, Step};
use crate::ops::{CfgProfile, Weights};
use crate::oracle::{flow, pos_ref_m, PosRef};
use crate::refmath::{pnl, S};
use crate::run::{Outcome, Violation};
use crate::world::{mul_div_floor, World};
use cosmwasm_std::Uint128;
use margined_perp::margined_vamm as vamm;
use serde_json::json;

#[derive(Default)]
pub struct Mon {
    pre_ref: Option<PosRef>,
    twap: Option<u128>,
    under: Option<u128>,
    settlements_nonzero: u64,
    charged_nonzero: u64,
    /// harness model: sum of the reference fractions of all successful settlements, per vAMM
    phi_model: Vec<S>,
}

impl Monitor for Mon {
    fn before(&mut self, it: &mut Interp, act: &Act, pre: &Obs, _out: &mut Outcome) -> Option<Violation> {
        self.pre_ref = None;
        self.twap = None;
        self.under = None;
        match act {
            Act::PayFunding { v, .. } => {
                let i = pre.v[*v].cfg.spot_price_twap_interval;
                self.twap = it.w.query::<Uint128, _>(&it.w.vamms[*v], &vamm::QueryMsg::TwapPrice { interval: i }).ok().map(|x| x.u128());
                self.under = it.w.query::<Uint128, _>(&it.w.vamms[*v], &vamm::QueryMsg::UnderlyingTwapPrice { interval: i }).ok().map(|x| x.u128());
            }
            _ => {
                if let Some((v, t)) = act.subject() {
                    self.pre_ref = pos_ref_m(&it.w, pre, v, t);
                }
            }
        }
        None
    }
    fn after(&mut self, w: &World, s: &Step, out: &mut Outcome) -> Option<Violation> {
        let d = w.d;
        if self.phi_model.len() != w.vamms.len() {
            self.phi_model = s.pre.v.iter().map(|v| v.cpf).collect();
        }
        let r = self.after_inner(w, s, out);
        if r.is_some() {
            return r;
        }
        // the cumulative premium fraction moves only by settlements (history invariant)
        for v in 0..w.vamms.len() {
            if s.post.v[v].cpf != self.phi_model[v] {
                return Some(
                    Violation::new(
                        "cumulative_fraction_changed_outside_settlement",
                        format!("after {} (ok={}) the cumulative premium fraction of vamm {} is {} but the settlements so far add up to {}", s.act.name(), s.res.ok, v, s.post.v[v].cpf, self.phi_model[v]),
                    )
                    .with("act", s.act.name())
                    .with("effect", format!("{:?}", s.effect)),
                );
            }
        }
        out.count("cumulative_fraction_invariant_checks");
        let _ = d;
        None
    }
    fn end(&mut self, _w: &World, out: &mut Outcome) {
        out.nontrivial = self.settlements_nonzero >= 1 && self.charged_nonzero >= 1;
        out.summary = Some(json!({"nonzero_settlements": self.settlements_nonzero, "charged_operations_with_nonzero_funding": self.charged_nonzero}));
    }
}

impl Mon {
    fn after_inner(&mut self, w: &World, s: &Step, out: &mut Outcome) -> Option<Violation> {
        let d = w.d;
        match s.act {
            Act::PayFunding { v, .. } => {
                let st0 = &s.pre.v[*v].state;
                let st1 = &s.post.v[*v].state;
                let period = s.pre.v[*v].cfg.funding_period;
                if !s.res.ok {
                    if s.pre.time < st0.next_funding_time {
                        out.count("early_settlement_refused");
                    }
                    return None;
                }
                out.count("settlement_checks");
                if w.cfg.real_feed {
                    out.count("settlement_checks_real_feed");
                }
                if s.pre.time < st0.next_funding_time {
                    return Some(Violation::new(
                        "settled_before_funding_time",
                        format!("PayFunding succeeded at t={} but next funding time was {}", s.pre.time, st0.next_funding_time),
                    ));
                }
                let (tw, un) = match (self.twap, self.under) {
                    (Some(a), Some(b)) => (a, b),
                    _ => {
                        // no reference available: follow the observed value (counted)
                        out.count("settlement_without_reference");
                        self.phi_model[*v] = s.post.v[*v].cpf;
                        return None;
                    }
                };
                let frac = S::pos(tw).sub(&S::pos(un)).mul(&S::pos(period as u128)).div_trunc(&S::pos(86400));
                let dphi = s.post.v[*v].cpf.sub(&s.pre.v[*v].cpf);
                self.phi_model[*v] = self.phi_model[*v].add(&frac);
                if dphi != frac {
                    return Some(Violation::new(
                        "premium_fraction",
                        format!("cumulative premium fraction moved by {} but (vAMM TWAP {} - oracle TWAP {}) * period {} / 86400 = {}", dphi, tw, un, period, frac),
                    ));
                }
                if st1.next_funding_time < s.pre.time + period / 2 {
                    return Some(Violation::new(
                        "next_funding_time",
                        format!("next funding time {} is less than half a period ({}) after now {}", st1.next_funding_time, period / 2, s.pre.time),
                    ));
                }
                let total = S::from_integer(st0.total_position_size);
                let p = total.mul(&frac).div_trunc(&S::pos(d));
                let (e, f) = (w.engine.to_string(), w.fund.to_string());
                let v2f = flow(&s.res.xfers, Some(&e), &f);
                let f2v = flow(&s.res.xfers, Some(&f), &e);
                let vault0 = s.pre.bal[w.idx_engine()];
                let (exp_v2f, exp_f2v) = if p.is_zero() {
                    (0, 0)
                } else if p.is_neg() {
                    (0, p.mag_u128().unwrap_or(u128::MAX))
                } else {
                    (p.mag_u128().unwrap_or(u128::MAX).min(vault0), 0)
                };
                if v2f != exp_v2f || f2v != exp_f2v {
                    return Some(
                        Violation::new(
                            "funding_transfer",
                            format!("net position {} x fraction {} / D = {}: expected vault->fund {} and fund->vault {}, observed {} and {} (vault balance {})", total, frac, p, exp_v2f, exp_f2v, v2f, f2v, vault0),
                        )
                        .with("sign", if p.is_neg() { "negative" } else { "positive" }),
                    );
                }
                // nothing else moves
                for (i, a) in w.accounts.iter().enumerate() {
                    if i != w.idx_engine() && i != w.idx_fund() && s.pre.bal[i] != s.post.bal[i] {
                        return Some(Violation::new("funding_moved_other_balance", format!("PayFunding changed the balance of {}", a)));
                    }
                }
                if !frac.is_zero() && !p.is_zero() {
                    self.settlements_nonzero += 1;
                    out.count("settlement_nonzero");
                    if p.is_neg() {
                        out.count("settlement_fund_pays");
                    }
                }
            }
            Act::Open { t, v, margin, lev, .. } if s.res.ok => {
                if let Some(pr) = &self.pre_ref {
                    let phi = s.pre.v[*v].cpf;
                    let charged = !pr.funding.is_zero();
                    let p1 = s.post.pos[*v][*t].as_ref();
                    match s.effect {
                        Effect::Increased | Effect::Reduced => {
                            let p1 = p1?;
                            out.count("owner_trade_checks");
                            if S::from_integer(p1.last_updated_premium_fraction) != phi {
                                return Some(Violation::new("checkpoint_not_moved", format!("{:?}: checkpoint {} != current fraction {}", s.effect, p1.last_updated_premium_fraction, phi)).with("effect", format!("{:?}", s.effect)));
                            }
                            let notional = mul_div_floor(*margin, *lev, d);
                            let delta = if s.effect == Effect::Increased {
                                // the margin added is what actually reached the vault in this transaction
                                let _ = (notional, lev);
                                S::pos(s.post.bal[w.idx_engine()]).sub(&S::pos(s.pre.bal[w.idx_engine()]))
                            } else {
                                let closed = pr.size - p1.size.value.u128();
                                pr.pnl_spot()?.mul(&S::pos(closed)).div_trunc(&S::pos(pr.size))
                            };
                            let exp = S::pos(pr.margin).add(&delta).sub(&pr.funding);
                            if exp.is_neg() {
                                // the position owes more than its margin (plus what the order adds / realises) can pay: the charge
                                // cannot be collected, so the order cannot go through (a stored margin of zero would write the rest off)
                                return Some(
                                    Violation::new(
                                        "funding_written_off_on_trade",
                                        format!("{:?} succeeded although margin {} + {} - funding owed {} = {} < 0: stored margin is {}, the remainder of the charge is dropped", s.effect, pr.margin, delta, pr.funding, exp, p1.margin),
                                    )
                                    .with("effect", format!("{:?}", s.effect)),
                                );
                            }
                            if S::pos(p1.margin.u128()) != exp {
                                return Some(
                                    Violation::new(
                                        "funding_not_charged_on_trade",
                                        format!("{:?}: stored margin {} -> {} but margin + {} - funding owed {} = {}", s.effect, pr.margin, p1.margin, delta, pr.funding, exp),
                                    )
                                    .with("effect", format!("{:?}", s.effect))
                                    .with("funding_zero", pr.funding.is_zero()),
                                );
                            }
                            if charged {
                                self.charged_nonzero += 1;
                                out.count("charged_nonzero");
                            }
                        }
                        Effect::Closed => {
                            // an opposite order that trades the position flat settles like a close:
                            // wallet delta = (M + PnL - F) - fees   (cw20; requested notional is charged)
                            out.count("flat_by_opposite_order_checks");
                            let n_close = pr.n_spot?;
                            let realised = pnl(pr.long, n_close, pr.notional);
                            let old_equity = pr.equity(&realised);
                            if old_equity.is_neg() || w.cfg.native {
                                return None;
                            }
                            let obs_delta = S::pos(s.post.bal[*t]).sub(&S::pos(s.pre.bal[*t]));
                            let fees_paid: u128 = s.res.xfers.iter().filter(|x| x.from == w.traders[*t] && (x.to == w.fund.as_str() || x.to == w.fee_pool.as_str())).map(|x| x.amount).sum();
                            // the equity either leaves to the wallet (reversal path) or stays as margin of the now
                            // flat record (reduce path that sells exactly the whole size): both together are the equity
                            let kept = S::pos(p1.map(|p| p.margin.u128()).unwrap_or(0));
                            let exp_delta = old_equity.sub(&S::pos(fees_paid)).sub(&kept);
                            if obs_delta != exp_delta {
                                return Some(
                                    Violation::new(
                                        "funding_not_charged_on_reversal",
                                        format!(
                                            "opposite order that ends flat: wallet moved by {} but equity (margin {} + pnl {} - funding {}) {} - fees {} - margin kept in the flat record {} = {}",
                                            obs_delta, pr.margin, realised, pr.funding, old_equity, fees_paid, kept, exp_delta
                                        ),
                                    )
                                    .with("effect", "Closed")
                                    .with("funding_zero", pr.funding.is_zero()),
                                );
                            }
                            if charged {
                                self.charged_nonzero += 1;
                                out.count("charged_nonzero");
                            }
                        }
                        Effect::Reversed => {
                            // closed leg settles like a close: the trader's wallet moves by -(fees) - (new margin - (M + PnL - F))
                            let p1 = p1?;
                            out.count("reversal_checks");
                            if S::from_integer(p1.last_updated_premium_fraction) != phi {
                                return Some(Violation::new("checkpoint_not_moved", format!("reversal: checkpoint {} != current fraction {}", p1.last_updated_premium_fraction, phi)).with("effect", "Reversed"));
                            }
                            let n_close = pr.n_spot?;
                            let realised = pnl(pr.long, n_close, pr.notional);
                            let old_equity = pr.equity(&realised);
                            // (a closed leg that is under water pays its debt on top of the new margin: the same formula)
                            if w.cfg.native {
                                return None;
                            }
                            let vc = &s.pre.v[*v].cfg;
                            let notional = mul_div_floor(*margin, *lev, d);
                            let fees = crate::refmath::fee(notional, vc.toll_ratio.u128(), d) + crate::refmath::fee(notional, vc.spread_ratio.u128(), d);
                            let new_margin = p1.margin.u128();
                            let exp_delta = old_equity.sub(&S::pos(new_margin)).sub(&S::pos(fees));
                            let obs_delta = S::pos(s.post.bal[*t]).sub(&S::pos(s.pre.bal[*t]));
                            if obs_delta != exp_delta {
                                return Some(
                                    Violation::new(
                                        "funding_not_charged_on_reversal",
                                        format!(
                                            "reversal: wallet moved by {} but old equity (margin {} + pnl {} - funding {}) {} - new margin {} - fees {} = {}",
                                            obs_delta, pr.margin, realised, pr.funding, old_equity, new_margin, fees, exp_delta
                                        ),
                                    )
                                    .with("effect", "Reversed")
                                    .with("funding_zero", pr.funding.is_zero()),
                                );
                            }
                            if charged {
                                self.charged_nonzero += 1;
                                out.count("charged_nonzero");
                            }
                        }
                        _ => {}
                    }
                }
            }
            Act::Close { t, v, .. } if s.res.ok && s.effect == Effect::PartialClosed => {
                if let (Some(pr), Some(p1)) = (&self.pre_ref, s.post.pos[*v][*t].as_ref()) {
                    let phi = s.pre.v[*v].cpf;
                    out.count("partial_close_checks");
                    if S::from_integer(p1.last_updated_premium_fraction) != phi {
                        return Some(Violation::new("checkpoint_not_moved", format!("partial close: checkpoint {} != current fraction {}", p1.last_updated_premium_fraction, phi)).with("effect", "PartialClosed"));
                    }
                    let closed = pr.size - p1.size.value.u128();
                    let realised = pr.pnl_spot()?.mul(&S::pos(closed)).div_trunc(&S::pos(pr.size));
                    let exp = S::pos(pr.margin).add(&realised).sub(&pr.funding);
                    if S::pos(p1.margin.u128()) != exp {
                        return Some(
                            Violation::new(
                                "funding_not_charged_on_trade",
                                format!("partial close: stored margin {} -> {} but margin + realised {} - funding owed {} = {}", pr.margin, p1.margin, realised, pr.funding, exp),
                            )
                            .with("effect", "PartialClosed")
                            .with("funding_zero", pr.funding.is_zero()),
                        );
                    }
                    if !pr.funding.is_zero() {
                        self.charged_nonzero += 1;
                        out.count("charged_nonzero");
                    }
                }
            }
            Act::Withdraw { t, v, amount } if s.res.ok => {
                if let (Some(pr), Some(p1)) = (&self.pre_ref, s.post.pos[*v][*t].as_ref()) {
                    out.count("withdraw_checks");
                    if S::from_integer(p1.last_updated_premium_fraction) != s.pre.v[*v].cpf {
                        return Some(Violation::new("checkpoint_not_moved", format!("withdraw: checkpoint {} != current fraction {}", p1.last_updated_premium_fraction, s.pre.v[*v].cpf)).with("effect", "withdraw"));
                    }
                    let exp = S::pos(pr.margin).sub(&S::pos(*amount)).sub(&pr.funding);
                    if S::pos(p1.margin.u128()) != exp {
                        return Some(
                            Violation::new("funding_not_charged_on_trade", format!("withdraw {}: stored margin {} -> {} but expected {} (funding owed {})", amount, pr.margin, p1.margin, exp, pr.funding))
                                .with("effect", "withdraw")
                                .with("funding_zero", pr.funding.is_zero()),
                        );
                    }
                    if !pr.funding.is_zero() {
                        self.charged_nonzero += 1;
                        out.count("charged_nonzero");
                    }
                }
            }
            Act::Liquidate { .. } if s.res.ok && s.effect == Effect::LiqFull => {
                // payout with funding is checked by C06; here only count
                if let Some(pr) = &self.pre_ref {
                    if !pr.funding.is_zero() {
                        out.count("full_liquidation_with_funding_pending");
                    }
                }
            }
            _ => {}
        }
        None
    }
}

pub fn prop() -> HistProp {
    let mut w = Weights::trading();
    // funding drains: the oracle is set so that the next settlement consumes about half / all / several times a holder's margin
    w.drain = 3;
    w.funding = 18;
    w.block = 18;
    w.oracle = 10;
    w.open = 30;
    w.squeeze = 2;
    w.liq_weakest = 4;
    w.balance = 4;
    // a run of funding periods settled one after the other (the per-market list of cumulative fractions grows long)
    w.burst = 2;
    // the vAMM's owner changes the funding TWAP interval, fees and band in between, closes and re-opens the market
    w.vcfg = 2;
    w.setopen = 1;
    let mut p = CfgProfile::general();
    // one deployment in four reads its oracle from the repository's own price feed (the funding path only needs its TWAP)
    p.real_feed = None;
    HistProp {
        id: "C11",
        level: "exploration",
        profile: p,
        weights: w,
        min_ops: 6,
        max_ops: (40, 100),
        cases: (12_000, 400_000),
        make: || Box::new(Mon::default()),
        rule: "engine histories rich in PayFunding calls on block-time schedules around next_funding_time (1 s before, exactly at, half a period / a period / a day later, two calls in one block), oracle above / below / equal to the vAMM TWAP, net position long / short / flat, interleaved trades, deposits, withdrawals, closes and liquidations. Successful PayFunding: now >= next_funding_time(pre); cumulative fraction moves by trunc((TwapPrice{i} - UnderlyingTwapPrice{i}) * period / 86400) with both read in the pre-state; next_funding_time(post) >= now + period/2; with P = trunc(T*fraction/D) exactly min(P, vault) moves vault->fund (P>0) or |P| fund->vault (P<0) and no other balance moves. After every step the engine's CumulativePremiumFraction must equal the sum of the reference fractions of the settlements so far (it moves by settlements only). Owner trades (increase / reduce / partial close / withdraw): checkpoint = current fraction and stored margin = M + delta - F (an order that would make it negative must not succeed: the charge could not be collected); reversal (cw20): wallet delta = (M + PnL - F) - new margin - fees. Non-trivial: >= 1 settlement with non-zero fraction and payment and >= 1 charged owner operation with F != 0. Distinct by digest of (cfg, ops).",
        assumptions: &["withdraw / close / full-liquidation charges are asserted by C05 / C04 / C06 with the same F; the reversal wallet clause is evaluated on cw20 deployments (native reversals are C13's subject)"],
        eval_counter: None,
    }
}
