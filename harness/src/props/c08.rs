//! C08 — engine transactions are all-or-nothing and leave no in-flight residue (fault enumeration).
use super::histprop::HistProp;
use crate::hist::{Act, Interp, Monitor, Obs, Step};
use crate::ops::{CfgProfile, Weights};
use crate::run::{Outcome, Violation};
use crate::world::World;
use serde_json::json;

#[derive(Default)]
pub struct Mon {
    dump0: Option<Vec<(Vec<u8>, Vec<u8>)>>,
    max_tree: usize,
    faulted: u64,
    natural_failures: u64,
}

const RESIDUE_KEYS: [&[u8]; 3] = [b"tmp-swap", b"sent-funds", b"tmp-liquidator"];

fn residue(w: &World) -> Option<String> {
    for k in RESIDUE_KEYS {
        if w.engine_has_raw_key(k) {
            return Some(String::from_utf8_lossy(k).to_string());
        }
    }
    None
}

fn first_diff(a: &[(Vec<u8>, Vec<u8>)], b: &[(Vec<u8>, Vec<u8>)]) -> String {
    use std::collections::BTreeMap;
    let ma: BTreeMap<_, _> = a.iter().cloned().collect();
    let mb: BTreeMap<_, _> = b.iter().cloned().collect();
    for (k, v) in &ma {
        match mb.get(k) {
            None => return format!("key {:?} removed", String::from_utf8_lossy(k)),
            Some(v2) if v2 != v => {
                return format!(
                    "key {:?}: {:?} -> {:?}",
                    String::from_utf8_lossy(k),
                    String::from_utf8_lossy(v).chars().take(200).collect::<String>(),
                    String::from_utf8_lossy(v2).chars().take(200).collect::<String>()
                )
            }
            _ => {}
        }
    }
    for k in mb.keys() {
        if !ma.contains_key(k) {
            return format!("key {:?} added", String::from_utf8_lossy(k));
        }
    }
    "no difference".into()
}

impl Monitor for Mon {
    fn before(&mut self, it: &mut Interp, act: &Act, _pre: &Obs, out: &mut Outcome) -> Option<Violation> {
        self.dump0 = None;
        if !matches!(
            act,
            Act::Open { .. } | Act::Close { .. } | Act::Deposit { .. } | Act::Withdraw { .. } | Act::Liquidate { .. } | Act::PayFunding { .. }
        ) {
            return None;
        }
        let snap = it.w.snapshot();
        self.dump0 = Some(snap.kv.clone());
        // learn the message tree on a what-if run
        let r0 = it.exec_act(act);
        let n = r0.n_msgs;
        it.w.restore(&snap);
        if it.w.dump() != snap.kv {
            out.harness_error = Some("restore did not reproduce the snapshot".into());
            return None;
        }
        self.max_tree = self.max_tree.max(n);
        out.add("message_tree_nodes", n as u64);
        for k in 1..=n {
            let r = it.exec_act_fault(act, Some(k));
            self.faulted += 1;
            out.count("faulted_executions");
            let d = it.w.dump();
            let what = r0.msgs.get(k - 1).map(|m| format!("#{} {} <- {}: {}", m.idx, m.target, m.sender, m.what)).unwrap_or_default();
            let target = r0.msgs.get(k - 1).map(|m| m.target).unwrap_or("?");
            let mut v = None;
            if !r.fault_hit {
                out.count("fault_not_reached");
            } else if r.ok {
                v = Some(
                    Violation::new(
                        "fault_swallowed",
                        format!("{}: message {} of {} failed but the transaction returned Ok; failed message: {}", act.name(), k, n, what),
                    )
                    .with("act", act.name())
                    .with("target", target),
                );
            } else if d != snap.kv {
                v = Some(
                    Violation::new(
                        "state_changed_by_failed_tx",
                        format!("{}: message {} of {} failed, the call returned Err but storage differs: {}; failed message: {}", act.name(), k, n, first_diff(&snap.kv, &d), what),
                    )
                    .with("act", act.name())
                    .with("target", target),
                );
            } else if let Some(key) = residue(&it.w) {
                v = Some(Violation::new("residue_after_failed_tx", format!("{}: raw key {} left behind", act.name(), key)).with("act", act.name()));
            }
            it.w.restore(&snap);
            if v.is_some() {
                return v;
            }
        }
        None
    }
    fn after(&mut self, w: &World, s: &Step, out: &mut Outcome) -> Option<Violation> {
        if matches!(s.act, Act::NextBlock { .. } | Act::Skip) {
            return None;
        }
        if let Some(key) = residue(w) {
            return Some(
                Violation::new(
                    "in_flight_residue",
                    format!("after {} (ok={}) the engine still holds raw key {}", s.act.name(), s.res.ok, key),
                )
                .with("act", s.act.name())
                .with("key", key)
                .with("effect", format!("{:?}", s.effect))
                .with("ok", s.res.ok),
            );
        }
        out.count("residue_checks");
        // a sub-message that reports success has had its whole effect: an insurance-fund withdrawal the engine asked for in a
        // successful transaction moved exactly the requested amount (a fund that silently pays less masks a failed withdrawal)
        if s.res.ok && s.act.is_engine_tx() {
            let mut requested: u128 = 0;
            let mut n = 0;
            for m in s.res.msgs.iter().filter(|m| m.target == "fund" && m.sender == w.engine.as_str()) {
                if let Ok(j) = serde_json::from_str::<serde_json::Value>(&m.what) {
                    if let Some(a) = j.get("withdraw").and_then(|x| x.get("amount")).and_then(|a| a.as_str()).and_then(|a| a.parse::<u128>().ok()) {
                        requested = requested.saturating_add(a);
                        n += 1;
                    }
                }
            }
            if n > 0 {
                out.count("fund_withdrawals_in_successful_txs");
                let got = crate::oracle::flow(&s.res.xfers, Some(w.fund.as_str()), w.engine.as_str());
                if got != requested {
                    return Some(
                        Violation::new(
                            "fund_withdrawal_not_honoured",
                            format!("{} succeeded: the engine asked the insurance fund for {} in {} Withdraw message(s) but the fund paid the engine {}", s.act.name(), requested, n, got),
                        )
                        .with("act", s.act.name()),
                    );
                }
            }
        }
        if !s.res.ok && s.act.is_engine_tx() {
            self.natural_failures += 1;
            out.count("natural_failures");
            // Obs equality is implied by dump equality, which `before` checks for injected faults; for natural
            // failures compare the observable state and balances
            if let Some(d0) = self.dump0.take() {
                let d1 = w.dump();
                if d0 != d1 {
                    return Some(
                        Violation::new(
                            "failed_tx_changed_state",
                            format!("{} failed ({}) but the raw storage dump changed: {}", s.act.name(), s.res.err, first_diff(&d0, &d1)),
                        )
                        .with("act", s.act.name()),
                    );
                }
            }
            if s.pre != s.post {
                return Some(
                    Violation::new(
                        "failed_tx_changed_state",
                        format!("{} failed ({}) but observable state changed", s.act.name(), s.res.err),
                    )
                    .with("act", s.act.name()),
                );
            }
        }
        None
    }
    fn end(&mut self, _w: &World, out: &mut Outcome) {
        out.nontrivial = self.max_tree >= 3;
        out.summary = Some(json!({"largest_message_tree": self.max_tree, "faulted_executions": self.faulted, "natural_failures": self.natural_failures}));
    }
}

pub fn prop() -> HistProp {
    let mut w = Weights::trading();
    // funding drains: the oracle is set so that the next settlement consumes about half / all / several times a holder's margin
    w.drain = 3;
    w.squeeze = 3;
    w.rewire = 1;
    HistProp {
        id: "C08",
        level: "fault_enumeration",
        profile: CfgProfile::general(),
        weights: w,
        min_ops: 3,
        max_ops: (25, 60),
        cases: (20_000, 300_000),
        make: || Box::new(Mon::default()),
        rule: "for every Open/Close/Deposit/Withdraw/Liquidate/PayFunding transaction of a generated history (cw20 and native, fees, shortfall paths): the transaction is first run on a what-if copy to learn its message tree (every message dispatched by a contract of the deployment to the vAMM, the collateral token, the insurance fund or the bank, depth first); then, from the restored pre-state, it is re-run once per tree node with that node failing instead of executing (exhaustive within the transaction): the call must return Err and the full raw key/value dump of the chain store (all contracts + bank) must equal the pre-state dump. Natural failures (allowance, balance, closed/over-limit vAMM, slippage limit, bad debt) must leave the raw dump and every observable unchanged. After every transaction the engine's raw keys tmp-swap, sent-funds, tmp-liquidator must be absent. In a successful transaction the Withdraw messages the engine sent to the insurance fund add up to exactly what the fund paid the engine (a fund that pays less than asked masks a failed withdrawal). evaluations = faulted executions. Non-trivial: a history containing a transaction with a message tree of >= 3 nodes. Distinct by digest of (cfg, ops).",
        assumptions: &["crash points are sub-message boundaries (where CosmWasm can fail a transaction); a contract panic is a failed transaction", "pre-states and operations are sampled; fault positions within each sampled transaction are enumerated completely"],
        eval_counter: Some("faulted_executions"),
    }
}
