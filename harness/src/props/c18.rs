//! C18 — time-weighted prices stay within the prices actually observed (vAMM TWAP and price feed).
use super::curve::{exec_swap, reserve_strategy, resolve, swap_strategy, SwapOp};
use crate::refmath::{twap_ref, S};
use crate::run::{idx, Ctx, Outcome, Property, Tier, Violation};
use crate::vsim::VSim;
use crate::world::mul_div_floor;
use cosmwasm_std::testing::{mock_dependencies, mock_env, mock_info};
use cosmwasm_std::{from_binary, Timestamp, Uint128};
use margined_perp::margined_pricefeed as feed;
use margined_perp::margined_vamm::QueryMsg;
use proptest::prelude::*;
use proptest::strategy::BoxedStrategy;
use serde::{Deserialize, Serialize};
use serde_json::json;
use std::panic::{catch_unwind, AssertUnwindSafe};

#[derive(Clone, Debug, Serialize, Deserialize)]
pub struct Block {
    pub dt: u8,
    /// sub-second fraction of the block time in milliseconds
    #[serde(default)]
    pub ms: u16,
    pub swaps: Vec<SwapOp>,
    pub intervals: Vec<u16>,
}

#[derive(Clone, Debug, Serialize, Deserialize)]
pub struct Round {
    pub dt: u8,
    pub price: u64,
    /// true: this round is submitted together with the following ones in one AppendMultiplePrice
    #[serde(default)]
    pub batch: bool,
    /// block time at submission = timestamp + lag
    pub lag: u8,
}

#[derive(Clone, Debug, Serialize, Deserialize)]
pub enum Case {
    Vamm {
        decimals: u8,
        #[serde(with = "crate::util::u128s")]
        x0: u128,
        #[serde(with = "crate::util::u128s")]
        y0: u128,
        blocks: Vec<Block>,
        /// how often the block list is run through (busy markets: several hundred snapshots inside one window)
        #[serde(default)]
        cycles: u16,
    },
    Feed {
        rounds: Vec<Round>,
        now_lag: u8,
        intervals: Vec<u16>,
        /// rounds submitted for a second pair of the same feed before (and between) the rounds of the judged pair
        #[serde(default)]
        other_pair: u8,
        /// > 1: the round list is submitted that many times over (a feed that has been running for a long time)
        #[serde(default)]
        cycles: u16,
    },
}

pub struct C18;

/// block spacing in seconds; 0 = a new block within the same second (sub-second block times)
const DTS: [u64; 14] = [15, 1, 60, 900, 901, 3600, 7, 86400, 450, 300, 0, 604_800, 259_200, 1_000_000];

fn block_strategy() -> impl Strategy<Value = Block> {
    (
        0u8..14,
        0u16..1000,
        proptest::collection::vec(swap_strategy(), 0..=4),
        proptest::collection::vec(any::<u16>(), 1..=4),
    )
        .prop_map(|(dt, ms, swaps, intervals)| Block { dt, ms, swaps, intervals })
}

fn interval_from(knob: u16, now: u64, hist: &[(u64, u128)]) -> u64 {
    let age = now - hist[0].0;
    let tab: [u64; 15] = [900, 15, 60, 1, 3600, 901, 86400, age, age + 1, age.saturating_sub(1).max(1), 1_000_000, 450, 604_800, 604_801, 2_000_000];
    let i = idx(knob, tab.len() + 2);
    if i < tab.len() {
        tab[i].max(1)
    } else if i == tab.len() {
        // aligned with a snapshot time
        let k = (knob as usize) % hist.len();
        (now - hist[k].0).max(1)
    } else {
        // just inside a snapshot's lifetime
        let k = (knob as usize) % hist.len();
        (now - hist[k].0).saturating_sub(1 + (knob as u64 % 5)).max(1)
    }
}

fn vamm_case(decimals: u8, x0: u128, y0: u128, blocks_once: &[Block], cycles: u16, ctx: &Ctx, out: &mut Outcome) {
    let blocks: Vec<Block> = (0..cycles.max(1)).flat_map(|_| blocks_once.iter().cloned()).collect();
    if cycles > 1 {
        out.count("vamm.long_histories");
    }
    let mut sim = match VSim::new(decimals, x0, y0, 0, 0, 0) {
        Ok(s) => s,
        Err(e) => {
            out.harness_error = Some(format!("vAMM instantiate failed: {}", e));
            return;
        }
    };
    let d = sim.d;
    // (timestamp, block-final price): creation, then one entry per block that had an accepted swap
    let mut hist: Vec<(u64, u128)> = vec![(sim.t0, mul_div_floor(x0, d, y0))];
    let mut seen: Vec<(S, u128, u128)> = vec![(S::zero(), x0, y0)];
    let mut multi_swap_block = false;
    let mut inside_hits = 0u64;
    let mut trace = vec![];
    for (bi, b) in blocks.iter().enumerate() {
        sim.next_block_nanos(DTS[(b.dt as usize) % DTS.len()], (b.ms as u64) * 1_000_000);
        let mut accepted = 0;
        for op in &b.swaps {
            // owner actions are not trades: they must not disturb the price history either
            // (action 4 moves the clock by itself: it would split this block behind the model's back)
            let _ = super::curve::admin_churn(&mut sim, if op.admin == 4 { 0 } else { op.admin });
            let st = sim.state();
            let r = resolve(op, &st, d, &seen);
            if exec_swap(&mut sim, &r, 0).is_ok() {
                accepted += 1;
                let st1 = sim.state();
                seen.push((S::from_integer(st1.total_position_size), st1.quote_asset_reserve.u128(), st1.base_asset_reserve.u128()));
            }
        }
        if accepted > 0 {
            let st = sim.state();
            let p = mul_div_floor(st.quote_asset_reserve.u128(), d, st.base_asset_reserve.u128());
            hist.push((sim.now(), p));
            if accepted >= 2 {
                multi_swap_block = true;
            }
        }
        let now = sim.now();
        let spot: u128 = sim.query::<Uint128>(QueryMsg::SpotPrice {}).map(|x| x.u128()).unwrap_or(0);
        for knob in &b.intervals {
            let interval = interval_from(*knob, now, &hist);
            let ans: Result<Uint128, String> = sim.query(QueryMsg::TwapPrice { interval });
            let ans = match ans {
                Ok(a) => a.u128(),
                Err(e) => {
                    out.count("vamm.query_failed_unjudged");
                    if std::env::var("PVERIF_ERRSTATS").is_ok() {
                        let e: String = e.chars().filter(|c| !c.is_ascii_digit()).map(|c| if c == ' ' { '_' } else { c }).take(60).collect();
                        out.count(&format!("err.{}", e));
                    }
                    continue;
                }
            };
            out.count("vamm.twap_answers");
            let (lo, hi, mean) = twap_ref(&hist, now, interval);
            let base = now.saturating_sub(interval);
            let distinct: std::collections::BTreeSet<u128> = hist.iter().filter(|(t, _)| *t > base).map(|(_, p)| *p).collect();
            let starts_inside = hist.iter().any(|(t, _)| *t < base) && hist.windows(2).any(|w| w[0].0 < base && base < w[1].0);
            if starts_inside && distinct.len() >= 2 {
                inside_hits += 1;
            }
            let mut v = None;
            if ans < lo || ans > hi {
                v = Some(Violation::new("vamm_twap_out_of_bounds", format!("TwapPrice{{{}}} = {} outside [{}, {}] of the block-final prices in effect; history {:?}, now {}", interval, ans, lo, hi, hist, now)));
            } else if lo == hi && ans != spot && hist.last().unwrap().1 == spot {
                v = Some(Violation::new("vamm_twap_not_spot_when_flat", format!("price constant at {} over the window but TwapPrice{{{}}} = {}", spot, interval, ans)));
            } else if ans.abs_diff(mean) > 1 {
                v = Some(
                    Violation::new(
                        "vamm_twap_vs_reference_mean",
                        format!("TwapPrice{{{}}} = {} but the time-weighted mean of the block-final prices is {}; history {:?}, now {}", interval, ans, mean, hist, now),
                    )
                    .with("multi_swap_block", multi_swap_block),
                );
            }
            if ctx.want_summary {
                trace.push(json!({"block": bi, "interval": interval, "answer": ans.to_string(), "lo": lo.to_string(), "hi": hi.to_string(), "mean": mean.to_string()}));
            }
            if let Some(v) = v {
                if let Some(v) = ctx.filter(out, v.at(bi)) {
                    out.violation = Some(v);
                    return;
                }
            }
        }
        // an interval of zero covers nothing but the present: the answer is the spot price
        if let (Ok(a0), Ok(sp)) = (sim.query::<Uint128>(QueryMsg::TwapPrice { interval: 0 }), sim.query::<Uint128>(QueryMsg::SpotPrice {})) {
            out.count("vamm.zero_interval_checks");
            if a0 != sp {
                let v = Violation::new("vamm_twap_zero_interval", format!("TwapPrice{{0}} = {} but the spot price is {}", a0, sp));
                if let Some(v) = ctx.filter(out, v.at(bi)) {
                    out.violation = Some(v);
                    return;
                }
            }
        }
        // "or during its whole history if shorter": every interval that reaches back beyond the creation of the market covers the
        // same history, so all of them have the same answer - also intervals longer than the chain's clock
        let whole = now.saturating_sub(hist[0].0).saturating_add(1);
        if bi % 2 == 0 || bi + 1 == blocks.len() {
        if let Ok(a1) = sim.query::<Uint128>(QueryMsg::TwapPrice { interval: whole }) {
            for longer in [now.saturating_add(1 + (bi as u64 % 7) * whole), u64::MAX / 2] {
                out.count("vamm.longer_than_history_checks");
                let a2 = catch_unwind(AssertUnwindSafe(|| sim.query::<Uint128>(QueryMsg::TwapPrice { interval: longer })));
                let same = matches!(&a2, Ok(Ok(x)) if *x == a1);
                if !same {
                    let v = Violation::new(
                        "vamm_twap_longer_than_history",
                        format!("TwapPrice{{{}}} (the whole history) = {} but TwapPrice{{{}}} gives {:?}", whole, a1, longer, a2.map_err(|_| "PANIC")),
                    );
                    if let Some(v) = ctx.filter(out, v.at(bi)) {
                        out.violation = Some(v);
                        return;
                    }
                }
            }
        }
        }
    }
    let distinct_prices: std::collections::BTreeSet<u128> = hist.iter().map(|(_, p)| *p).collect();
    out.nontrivial = inside_hits >= 1 && distinct_prices.len() >= 3 && multi_swap_block;
    if ctx.want_summary {
        out.summary = Some(json!({"flavour": "vamm", "history": hist.iter().map(|(t, p)| (t, p.to_string())).collect::<Vec<_>>(), "queries": trace}));
    }
}

#[derive(Deserialize, Debug)]
struct Pd {
    #[allow(dead_code)]
    round_id: Uint128,
    price: Uint128,
    timestamp: Timestamp,
}

fn feed_case(rounds: &[Round], now_lag: u8, intervals: &[u16], other_pair: u8, ctx: &Ctx, out: &mut Outcome) {
    let mut deps = mock_dependencies();
    let mut env = mock_env();
    if margined_pricefeed::contract::instantiate(deps.as_mut(), env.clone(), mock_info("owner", &[]), feed::InstantiateMsg { oracle_hub_contract: "hub".into() }).is_err() {
        out.harness_error = Some("price feed instantiate failed".into());
        return;
    }
    let mut t = env.block.time.seconds();
    let mut subs: Vec<(u64, u128)> = vec![];
    let mut pending: Vec<(u64, u128)> = vec![];
    // a feed serves several pairs: rounds of another pair must not disturb the judged one
    let mut other = |deps: &mut cosmwasm_std::OwnedDeps<_, _, _>, env: &cosmwasm_std::Env, t: u64, k: u64| {
        let _ = margined_pricefeed::contract::execute(
            deps.as_mut(),
            env.clone(),
            mock_info("owner", &[]),
            feed::ExecuteMsg::AppendPrice { key: "OTHER".into(), price: Uint128::new(777 + k as u128), timestamp: t },
        );
    };
    for k in 0..(other_pair % 4) as u64 {
        other(&mut deps, &env, t, k);
    }
    if other_pair % 4 != 0 {
        out.count("feed.cases_with_a_second_pair");
    }
    for (i, r) in rounds.iter().enumerate() {
        t += [0u64, 0, 1, 15, 60, 900, 3600, 7][(r.dt as usize) % 8];
        // one case in eight: the feed's very first round carries timestamp zero (a legal submission: not in the future, and
        // nothing precedes it)
        let t_round = if i == 0 && now_lag % 8 == 7 { 0 } else { t };
        let t_keep = t;
        let t = t_round;
        // one round in four repeats the previous price (feeds report unchanged prices all the time)
        let prev = pending.last().or(subs.last()).map(|x| x.1);
        let p = match prev {
            Some(pp) if r.price % 4 == 0 => pp,
            // a price of exactly zero is a submission like any other
            _ if r.price % 16 == 5 => 0,
            // prices in the upper range of the type: price x seconds no longer fits 128 bits (a query may refuse, not answer wrongly)
            _ if r.price % 16 == 9 => 10u128.pow(37) + (r.price as u128) * 1_000_003,
            _ => 1 + r.price as u128,
        };
        pending.push((t, p));
        let last = i + 1 == rounds.len();
        if r.batch && !last {
            continue;
        }
        // submissions are never in the future
        env.block.time = Timestamp::from_seconds(t + (r.lag as u64 % 4));
        let msg = if pending.len() == 1 {
            feed::ExecuteMsg::AppendPrice { key: "K".into(), price: Uint128::new(p), timestamp: t }
        } else {
            out.count("feed.batches");
            feed::ExecuteMsg::AppendMultiplePrice {
                key: "K".into(),
                prices: pending.iter().map(|x| Uint128::new(x.1)).collect(),
                timestamps: pending.iter().map(|x| x.0).collect(),
            }
        };
        let res = margined_pricefeed::contract::execute(deps.as_mut(), env.clone(), mock_info("owner", &[]), msg);
        if res.is_err() {
            out.harness_error = Some("owner's price submission failed".into());
            return;
        }
        subs.append(&mut pending);
        if other_pair >= 4 && i % 2 == 0 {
            other(&mut deps, &env, t, 100 + i as u64);
        }
        let _ = t_keep;
    }
    if subs.is_empty() {
        return;
    }
    let now = t + [0u64, 0, 1, 10, 1000, 100_000, 3, 900][(now_lag as usize) % 8];
    env.block.time = Timestamp::from_seconds(now.max(env.block.time.seconds()));
    let now = env.block.time.seconds();
    let q = |m: feed::QueryMsg| catch_unwind(AssertUnwindSafe(|| margined_pricefeed::contract::query(deps.as_ref(), env.clone(), m)));
    let mut inside = 0u64;
    let mut trace = vec![];
    for knob in intervals {
        let age = now - subs[0].0;
        let tab: [u64; 10] = [900, 1, 15, 60, 901, 3600, age.max(1), age + 1, 10_000, 1_000_000];
        let interval = tab[idx(*knob, tab.len())].max(1);
        if interval > now {
            continue;
        }
        let ans: u128 = match q(feed::QueryMsg::GetTwapPrice { key: "K".into(), interval }) {
            Ok(Ok(b)) => match from_binary::<Uint128>(&b) {
                Ok(x) => x.u128(),
                Err(_) => continue,
            },
            _ => {
                out.count("feed.twap_query_failed_unjudged");
                continue;
            }
        };
        out.count("feed.twap_answers");
        let base = now - interval;
        let mut lo = u128::MAX;
        let mut hi = 0u128;
        let mut seen_before = false;
        let mut n_in = 0;
        for (ts, p) in subs.iter().rev() {
            if *ts > base {
                lo = lo.min(*p);
                hi = hi.max(*p);
                n_in += 1;
            } else if !seen_before {
                lo = lo.min(*p);
                hi = hi.max(*p);
                seen_before = true;
            }
        }
        if n_in >= 1 && seen_before && lo != hi {
            inside += 1;
        }
        if ctx.want_summary {
            trace.push(json!({"interval": interval, "answer": ans.to_string(), "lo": lo.to_string(), "hi": hi.to_string()}));
        }
        if ans < lo || ans > hi {
            let v = Violation::new(
                "feed_twap_out_of_bounds",
                format!("GetTwapPrice{{{}}} = {} outside [{}, {}] of the submitted prices overlapping the window; submissions {:?}, now {}", interval, ans, lo, hi, subs, now),
            );
            if let Some(v) = ctx.filter(out, v) {
                out.violation = Some(v);
                return;
            }
        }
    }
    // every window that starts before the first submission covers the same rounds: one answer, also for intervals longer than
    // the chain's clock
    let whole = now - subs[0].0 + 1;
    if let Ok(Ok(b1)) = q(feed::QueryMsg::GetTwapPrice { key: "K".into(), interval: whole }) {
        if let Ok(a1) = from_binary::<Uint128>(&b1) {
            for longer in [whole.saturating_mul(3), now.saturating_add(1), now.saturating_mul(2), u64::MAX / 2] {
                out.count("feed.longer_than_history_checks");
                let a2 = match q(feed::QueryMsg::GetTwapPrice { key: "K".into(), interval: longer }) {
                    Ok(Ok(b2)) => from_binary::<Uint128>(&b2).ok(),
                    _ => None,
                };
                if a2 != Some(a1) {
                    let v = Violation::new(
                        "feed_twap_longer_than_history",
                        format!("GetTwapPrice{{{}}} (all submissions) = {} but GetTwapPrice{{{}}} gives {:?}; submissions {:?}, now {}", whole, a1, longer, a2, subs, now),
                    );
                    if let Some(v) = ctx.filter(out, v) {
                        out.violation = Some(v);
                        return;
                    }
                }
            }
        }
    }
    // latest
    match q(feed::QueryMsg::GetPrice { key: "K".into() }) {
        Ok(Ok(b)) => {
            out.count("feed.get_price_checks");
            let ok = from_binary::<Pd>(&b).map(|pd| pd.price.u128() == subs.last().unwrap().1 && pd.timestamp.seconds() == subs.last().unwrap().0).unwrap_or(false);
            if !ok {
                let v = Violation::new("feed_latest_price", format!("GetPrice does not return the last submission {:?}", subs.last()));
                if let Some(v) = ctx.filter(out, v) {
                    out.violation = Some(v);
                    return;
                }
            }
        }
        _ => out.count("feed.get_price_failed_unjudged"),
    }
    // n rounds back
    let k = subs.len();
    for n in 0..=(k as u128 + 1) {
        if let Ok(Ok(b)) = q(feed::QueryMsg::GetPreviousPrice { key: "K".into(), num_round_back: Uint128::new(n) }) {
            out.count("feed.previous_price_answers");
            let pd: Pd = match from_binary(&b) {
                Ok(p) => p,
                Err(_) => continue,
            };
            let want = if (n as usize) < k { Some(subs[k - 1 - n as usize]) } else { None };
            let good = want.map(|(ts, p)| pd.price.u128() == p && pd.timestamp.seconds() == ts).unwrap_or(false);
            if !good {
                let v = Violation::new(
                    "feed_previous_price",
                    format!("GetPreviousPrice{{{}}} with {} submissions returned price {} at {} instead of {:?}", n, k, pd.price, pd.timestamp.seconds(), want),
                )
                .with("n_equals_rounds", n as usize == k);
                if let Some(v) = ctx.filter(out, v) {
                    out.violation = Some(v);
                    return;
                }
            }
        } else {
            out.count("feed.previous_price_refused");
            // going back fewer rounds than were submitted must answer (that round exists)
            if (n as usize) < k {
                let v = Violation::new(
                    "feed_previous_price_refused",
                    format!("GetPreviousPrice{{{}}} is refused although {} rounds were submitted: {:?}", n, k, subs),
                );
                if let Some(v) = ctx.filter(out, v) {
                    out.violation = Some(v);
                    return;
                }
            }
        }
    }
    out.nontrivial = inside >= 1 && subs.len() >= 3;
    if ctx.want_summary {
        out.summary = Some(json!({"flavour": "feed", "submissions": subs.iter().map(|(t, p)| (t, p.to_string())).collect::<Vec<_>>(), "now": now, "queries": trace}));
    }
}

impl Property for C18 {
    type Case = Case;
    fn id(&self) -> &'static str {
        "C18"
    }
    fn strategy(&self, tier: Tier) -> BoxedStrategy<Case> {
        let nb = tier.pick(12, 30);
        // one case in 300 is a busy market: the block list is cycled until it holds about 300 blocks
        let vamm = (reserve_strategy(), proptest::collection::vec(block_strategy(), 1..=nb), 0u16..300).prop_map(|((decimals, x0, y0), blocks, c)| {
            let cycles = if c == 299 { (300 / blocks.len().max(1)) as u16 + 1 } else { 0 };
            Case::Vamm { decimals, x0, y0, blocks, cycles }
        });
        let feedc = (
            proptest::collection::vec((0u8..8, any::<u64>(), 0u8..4, 0u8..3).prop_map(|(dt, price, lag, b)| Round { dt, price: price % 1_000_000_000_000, batch: b == 0, lag }), 1..=10),
            0u8..8,
            proptest::collection::vec(any::<u16>(), 1..=6),
            0u8..8,
            0u16..400,
        )
            .prop_map(|(rounds, now_lag, intervals, other_pair, c)| {
                // one feed case in 400 is a long-running feed: the round list is cycled until it holds about 800 submissions
                let cycles = if c == 399 { (800 / rounds.len().max(1)) as u16 + 1 } else { 0 };
                Case::Feed { rounds, now_lag, intervals, other_pair, cycles }
            });
        prop_oneof![3 => vamm, 2 => feedc].boxed()
    }
    fn cases(&self, tier: Tier) -> u32 {
        tier.pick(600_000, 6_000_000)
    }
    fn rule(&self) -> String {
        "vAMM flavour (3/5 of the cases): generated reserves and block schedules (gaps 0 s .. 11 days, so that histories and query intervals longer than a week occur; block times with a sub-second fraction) with 0-4 swaps per block through the real entry points (one case in 300 cycles its block list up to about 300 blocks: a busy market with hundreds of snapshots inside one window); the harness records (block time, block-final spot) for every block with an accepted swap plus the creation entry; the owner's actions of C01 (market closed and re-opened, engine re-pointed, fee update) occur before 7-8% of the swaps; after each block TwapPrice{i} is queried for intervals shorter / equal / longer than the history, aligned with and just inside snapshot lifetimes: the answer must lie between the lowest and highest recorded price in effect in [now-i, now] (whole history if shorter), equal spot when the price did not change in the window, and agree (+-1) with the reference time-weighted mean over the block-final prices. Feed flavour: generated round sequences on the real price feed, submitted singly and in AppendMultiplePrice batches (non-decreasing timestamps incl. repeats, one round in four repeating the previous price, one in sixteen a price of exactly zero, one in sixteen a price around 10^37, not in the future; one feed case in 400 cycles its rounds up to about 800 submissions), in 7 of 8 cases with rounds of a second pair of the same feed submitted before or in between; GetTwapPrice within the bounds of the submissions overlapping the window, GetPrice = last submission, GetPreviousPrice{n} for n < rounds answers with exactly the (rounds-n)-th submission, and any successful answer for larger n would have to be a submitted round. Queries that error or panic give no value and are counted, not judged. Non-trivial: vAMM: a window starting strictly inside a snapshot's lifetime with >= 3 distinct prices in the history and a block with >= 2 swaps; feed: >= 3 submissions and a window overlapping different prices. Distinct by digest of the case.".into()
    }
    fn assumptions(&self) -> Vec<String> {
        vec!["mock dependencies stand in for the chain; block times strictly increase".into()]
    }
    fn run_case(&self, c: &Case, ctx: &Ctx) -> Outcome {
        let mut out = Outcome::default();
        match c {
            Case::Vamm { decimals, x0, y0, blocks, cycles } => vamm_case(*decimals, *x0, *y0, blocks, *cycles, ctx, &mut out),
            Case::Feed { rounds, now_lag, intervals, other_pair, cycles } => {
                let all: Vec<Round> = (0..(*cycles).max(1)).flat_map(|_| rounds.iter().cloned()).collect();
                if *cycles > 1 {
                    out.count("feed.long_histories");
                }
                feed_case(&all, *now_lag, intervals, *other_pair, ctx, &mut out)
            }
        }
        out
    }
}
