//! C12 — trading fees are exact, charged once, and routed to the right pools.
use super::histprop::HistProp;
use crate::hist::{Act, Effect, Interp, Monitor, Obs, Step};
use crate::ops::{CfgProfile, Weights};
use crate::oracle::flow;
use crate::refmath::fee;
use crate::run::{Outcome, Violation};
use crate::world::{mul_div_floor, u, World};
use margined_perp::margined_vamm as vamm;
use serde_json::json;

#[derive(Default)]
pub struct Mon {
    quoted_close_fee: Option<(u128, u128)>,
    interesting: u64,
    /// (toll, spread) of each vAMM as *submitted* by its owner (instantiate message, then accepted UpdateConfig messages):
    /// the ratios are not read back from the vAMM's Config answer
    ratios: Vec<(u128, u128)>,
}

impl Monitor for Mon {
    fn begin(&mut self, w: &mut World, _out: &mut Outcome) {
        self.ratios = w.cfg.vamms.iter().map(|v| (v.toll, v.spread)).collect();
    }
    fn before(&mut self, it: &mut Interp, act: &Act, pre: &Obs, _out: &mut Outcome) -> Option<Violation> {
        self.quoted_close_fee = None;
        if let Act::Close { t, v, .. } = act {
            if let Some(p) = &pre.pos[*v][*t] {
                let q: Result<vamm::CalcFeeResponse, _> = it.w.query(&it.w.vamms[*v], &vamm::QueryMsg::CalcFee { quote_asset_amount: u(p.notional.u128()) });
                if let Ok(q) = q {
                    self.quoted_close_fee = Some((q.spread_fee.u128(), q.toll_fee.u128()));
                }
            }
        }
        None
    }
    fn after(&mut self, w: &World, s: &Step, out: &mut Outcome) -> Option<Violation> {
        if !s.res.ok {
            return None;
        }
        if let Act::VammAdmin { v, msg: vamm::ExecuteMsg::UpdateConfig { toll_ratio, spread_ratio, .. }, .. } = s.act {
            if let Some(r) = self.ratios.get_mut(*v) {
                if let Some(t) = toll_ratio {
                    r.0 = t.u128();
                }
                if let Some(sp) = spread_ratio {
                    r.1 = sp.u128();
                }
            }
        }
        let d = w.d;
        let (fund, pool) = (w.fund.to_string(), w.fee_pool.to_string());
        let to_fund = flow(&s.res.xfers, None, &fund);
        let to_pool = flow(&s.res.xfers, None, &pool);
        match s.act {
            Act::Open { v, margin, lev, .. } => {
                let vc = &s.pre.v[*v].cfg;
                let (toll_m, spread_m) = self.ratios.get(*v).copied().unwrap_or((vc.toll_ratio.u128(), vc.spread_ratio.u128()));
                if (toll_m, spread_m) != (vc.toll_ratio.u128(), vc.spread_ratio.u128()) {
                    out.count("config_answer_differs_from_submitted_ratios");
                }
                let n = mul_div_floor(*margin, *lev, d);
                let exp_spread = fee(n, spread_m, d);
                let exp_toll = fee(n, toll_m, d);
                out.count("open_fee_checks");
                if to_fund != exp_spread || to_pool != exp_toll {
                    return Some(
                        Violation::new(
                            "open_fee",
                            format!(
                                "OpenPosition notional {} ({:?}): insurance fund received {} (expected floor(n*spread) = {}), fee pool received {} (expected floor(n*toll) = {})",
                                n, s.effect, to_fund, exp_spread, to_pool, exp_toll
                            ),
                        )
                        .with("effect", format!("{:?}", s.effect))
                        .with("native", w.cfg.native),
                    );
                }
                if s.effect == Effect::Reversed && exp_spread > 0 && exp_toll > 0 {
                    self.interesting += 1;
                    out.count("reversal_with_both_fees");
                }
                if (exp_spread == 0 && vc.spread_ratio.u128() > 0) || (exp_toll == 0 && vc.toll_ratio.u128() > 0) {
                    self.interesting += 1;
                    out.count("fee_rounds_to_zero");
                }
            }
            Act::Close { v, .. } if s.effect == Effect::Closed => {
                if let Some((qs, qt)) = self.quoted_close_fee {
                    out.count("close_fee_checks");
                    if to_fund != qs || to_pool != qt {
                        return Some(
                            Violation::new(
                                "close_fee",
                                format!("whole close: insurance fund received {} (vAMM quotes {}), fee pool received {} (vAMM quotes {})", to_fund, qs, to_pool, qt),
                            )
                            .with("native", w.cfg.native),
                        );
                    }
                    let spot0 = s.pre.v[*v].spot;
                    let _ = spot0;
                    if qs + qt > 0 {
                        self.interesting += 1;
                        out.count("close_with_fees");
                    }
                }
            }
            Act::Deposit { .. } | Act::Withdraw { .. } | Act::PayFunding { .. } | Act::Liquidate { .. } => {
                out.count("no_fee_checks");
                let ip = w.idx_fee_pool();
                if s.pre.bal[ip] != s.post.bal[ip] || to_pool != 0 {
                    return Some(Violation::new("fee_on_non_trading_op", format!("{}: fee pool balance changed {} -> {}", s.act.name(), s.pre.bal[ip], s.post.bal[ip])).with("act", s.act.name()));
                }
                // no transfer from the caller or the position owner into the insurance fund either
                let from_user: u128 = s.res.xfers.iter().filter(|x| x.to == fund && w.traders.contains(&x.from)).map(|x| x.amount).sum();
                let from_sender = flow(&s.res.xfers, Some(s.sender), &fund);
                if from_user != 0 || from_sender != 0 {
                    return Some(Violation::new("fee_on_non_trading_op", format!("{}: {} moved from a trader wallet into the insurance fund", s.act.name(), from_user.max(from_sender))).with("act", s.act.name()));
                }
                // a deposit or withdrawal moves nothing into the insurance fund at all (in a native deployment a fee would leave
                // the engine's own account, the attached coins having arrived there first)
                if matches!(s.act, Act::Deposit { .. } | Act::Withdraw { .. }) {
                    let into_fund = flow(&s.res.xfers, None, &fund);
                    if into_fund != 0 {
                        return Some(Violation::new("fee_on_non_trading_op", format!("{}: {} moved into the insurance fund", s.act.name(), into_fund)).with("act", s.act.name()));
                    }
                }
            }
            _ => {}
        }
        None
    }
    fn end(&mut self, _w: &World, out: &mut Outcome) {
        out.nontrivial = self.interesting >= 1;
        out.summary = Some(json!({"interesting_fee_events": self.interesting}));
    }
}

pub fn prop() -> HistProp {
    let mut p = CfgProfile::general();
    p.fees = true;
    let mut w = Weights::trading();
    w.vcfg = 4;
    w.ecfg = 3;
    w.rewire = 2;
    w.whitelist = 2;
    // the pauser role changes hands: to a trading account and back (holding a role is not being whitelisted)
    w.handover = 2;
    HistProp {
        id: "C12",
        level: "exploration",
        profile: p,
        weights: w,
        min_ops: 4,
        max_ops: (40, 100),
        cases: (12_000, 400_000),
        make: || Box::new(Mon::default()),
        rule: "engine histories (cw20 and native) with toll/spread ratios from {0, 1 raw unit, 0.1%, 1%, 10%, 20%} changed by generated vAMM config updates, all notional sizes incl. fees rounding to zero. For every successful OpenPosition the transfers into the insurance fund / fee pool in that transaction (transfer log of the instrumented token / bank) must sum to floor(n*spread/D) / floor(n*toll/D) with n = floor(margin*leverage/D) (also for reversals: once, on n); for every whole ClosePosition they must equal the vAMM's CalcFee answer for the position's open notional read in the pre-state; Deposit/Withdraw/PayFunding/Liquidate must leave the fee pool balance unchanged and move nothing from a trader wallet to the fund. Non-trivial: a history with a reversal with both fees non-zero, or a fee that rounds down to zero under a non-zero ratio, or a whole close with non-zero fees. Distinct by digest of (cfg, ops).",
        assumptions: &["fee amounts are taken from dispatched transfers, not from net balances, because the fund may pay a vault shortfall out in the same transaction"],
        eval_counter: None,
    }
}
