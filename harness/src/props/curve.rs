//! Shared vAMM-level swap histories (used by C01 and the vAMM half of C17).
use crate::run::idx;
use crate::refmath::S;
use crate::vsim::{dir, VSim, ENGINE};
use cosmwasm_std::Uint128;
use margined_perp::margined_vamm::{ExecuteMsg, QueryMsg, StateResponse};
use proptest::prelude::*;
use serde::{Deserialize, Serialize};

#[derive(Clone, Debug, Serialize, Deserialize)]
pub struct SwapOp {
    /// true = SwapInput (quote amount given), false = SwapOutput (base amount given)
    pub input: bool,
    pub add: bool,
    /// amount class, see `amount()`
    pub class: u8,
    pub k: u32,
    /// 0 none, 1 exec-1, 2 exec, 3 exec+1, 4 far below, 5 far above
    pub limit_mode: u8,
    /// if set: SwapOutput that returns the net position to an earlier visited value (index knob)
    pub ret: Option<u16>,
    pub new_block: bool,
    /// value of SwapInput's can_go_over_fluctuation flag (no band is configured in these worlds)
    #[serde(default)]
    pub over: bool,
    /// owner action just before this swap: 1 = the market is closed and re-opened, 2 = the margin-engine setting is
    /// pointed elsewhere and back, 3 = fee ratios / caps are updated. None of them is a trade.
    #[serde(default)]
    pub admin: u8,
}

#[derive(Clone, Debug, Serialize, Deserialize)]
pub struct CurveCase {
    pub decimals: u8,
    #[serde(with = "crate::util::u128s")]
    pub x0: u128,
    #[serde(with = "crate::util::u128s")]
    pub y0: u128,
    pub swaps: Vec<SwapOp>,
}

pub fn reserve_strategy() -> impl Strategy<Value = (u8, u128, u128)> {
    // decimals 6..=12; magnitudes 1 unit .. 10^10 units, not round; the product mostly fits 128 bits
    (6u8..=12, 0u32..=10, 0u32..=10, 1u128..10, 1u128..10, any::<u64>(), any::<u64>(), 0u8..20).prop_map(
        |(dec, ex, ey, mx, my, fx, fy, over)| {
            let d = 10u128.pow(dec as u32);
            // keep x*y below 2^128 (about 3.4e38) unless `over` == 0 (overflow rejections are exercised too)
            let budget = 37u32.saturating_sub(2 * dec as u32);
            let (mut ex, mut ey) = (ex, ey);
            if over != 0 {
                while ex + ey + 2 > budget {
                    if ex >= ey && ex > 0 {
                        ex -= 1;
                    } else if ey > 0 {
                        ey -= 1;
                    } else {
                        break;
                    }
                }
            }
            let frac = |f: u64, round: bool| if round { 0 } else { (f as u128) % d };
            if over >= 18 {
                // binary-granular pools: the quote reserve is a multiple of 2^32 / 2^64 (all low words zero; together with
                // amounts of the same granularity every intermediate keeps them zero), deeper than 10^10 units at times
                let shift = if over == 19 { 64 } else { 32 };
                let x = ((mx * (1 + ex as u128)) << shift).max(d);
                let y = d * 10u128.pow(ey % 4) * my + frac(fy, fy % 5 != 4);
                return (dec, x, y);
            }
            let x = d * 10u128.pow(ex) * mx + frac(fx, fx % 5 == 0);
            let y = d * 10u128.pow(ey) * my + frac(fy, fy % 5 == 0);
            (dec, x, y)
        },
    )
}

pub fn swap_strategy() -> impl Strategy<Value = SwapOp> {
    // flat tuple, no unions (see ops::op_strategy)
    (any::<bool>(), any::<bool>(), 0u8..9, any::<u32>(), 0u8..8, 0u8..4, any::<u16>(), 0u8..5, any::<bool>(), 0u8..41).prop_map(
        |(input, add, class, k, limit_mode, r, rk, nb, over, adm)| SwapOp {
            input,
            add,
            class,
            k,
            limit_mode,
            ret: if r == 3 { Some(rk) } else { None },
            new_block: nb == 4,
            over,
            admin: if adm >= 37 { adm - 36 } else { 0 },
        },
    )
}

pub fn case_strategy(max_swaps: usize) -> impl Strategy<Value = CurveCase> {
    (reserve_strategy(), proptest::collection::vec(swap_strategy(), 1..=max_swaps)).prop_map(|((decimals, x0, y0), swaps)| {
        CurveCase {
            decimals,
            x0,
            y0,
            swaps,
        }
    })
}

/// requested amount for an op, relative to the current reserve on the requested side
pub fn amount(op: &SwapOp, st: &StateResponse, d: u128) -> u128 {
    let r = if op.input {
        st.quote_asset_reserve.u128()
    } else {
        st.base_asset_reserve.u128()
    };
    let k = op.k as u128;
    match op.class {
        0 => 1 + k % 1000,
        1 => r / (1 + k % 1000),
        2 => r / 2 + k % 7,
        3 => crate::world::mul_div_floor(r, k % 65536, 65536),
        4 => r.saturating_sub(k % 3),
        5 => r.saturating_add(1 + k % 1000),
        6 => d * (1 + k % 100),
        // amounts of binary granularity (multiples of 2^32 / 2^64)
        8 => (1 + k % 100) << (if (k >> 8) % 2 == 0 { 64 } else { 32 }),
        _ => r / (2 + k % 50) + k % d.max(1),
    }
}

#[derive(Clone, Debug)]
pub struct Resolved {
    pub input: bool,
    pub add: bool,
    pub amount: u128,
    pub is_return: bool,
    pub over: bool,
}

/// Resolve an op into a concrete swap (a `ret` op targets an earlier net position).
pub fn resolve(op: &SwapOp, st: &StateResponse, d: u128, seen: &[(S, u128, u128)]) -> Resolved {
    if let Some(knob) = op.ret {
        if !seen.is_empty() {
            let target = seen[idx(knob, seen.len())].0;
            let t = S::from_integer(st.total_position_size);
            let diff = t.sub(&target);
            if let (false, Some(m)) = (diff.is_zero(), diff.mag_u128()) {
                // T too large -> base must come back into the pool: SwapOutput AddToAmm
                return Resolved {
                    input: false,
                    add: !diff.is_neg(),
                    amount: m,
                    is_return: true,
                    over: false,
                };
            }
        }
    }
    Resolved {
        input: op.input,
        add: op.add,
        // zero amounts are outside the domain: no caller of the vAMM sends one (the engine rejects zero inputs)
        amount: amount(op, st, d).max(1),
        is_return: false,
        over: op.over,
    }
}

pub fn swap_msg(r: &Resolved, limit: u128) -> ExecuteMsg {
    if r.input {
        ExecuteMsg::SwapInput {
            direction: dir(r.add),
            quote_asset_amount: Uint128::new(r.amount),
            base_asset_limit: Uint128::new(limit),
            can_go_over_fluctuation: r.over,
        }
    } else {
        ExecuteMsg::SwapOutput {
            direction: dir(r.add),
            base_asset_amount: Uint128::new(r.amount),
            quote_asset_limit: Uint128::new(limit),
        }
    }
}

pub fn quote_query(r: &Resolved) -> QueryMsg {
    if r.input {
        QueryMsg::InputAmount {
            direction: dir(r.add),
            amount: Uint128::new(r.amount),
        }
    } else {
        QueryMsg::OutputAmount {
            direction: dir(r.add),
            amount: Uint128::new(r.amount),
        }
    }
}

pub fn exec_swap(sim: &mut VSim, r: &Resolved, limit: u128) -> Result<cosmwasm_std::Response, String> {
    sim.exec(ENGINE, swap_msg(r, limit))
}

/// Owner actions between swaps (see `SwapOp::admin`). Returns a description of what changed if the curve state
/// (reserves, net position) is not exactly what it was before them.
pub fn admin_churn(sim: &mut crate::vsim::VSim, admin: u8) -> Option<String> {
    use crate::vsim::{ENGINE, OWNER};
    use margined_perp::margined_vamm::ExecuteMsg;
    if admin == 0 {
        return None;
    }
    let st0 = sim.state();
    let cfgmsg = |me: Option<String>, toll: Option<u128>| ExecuteMsg::UpdateConfig {
        base_asset_holding_cap: None,
        open_interest_notional_cap: None,
        toll_ratio: toll.map(cosmwasm_std::Uint128::new),
        spread_ratio: None,
        fluctuation_limit_ratio: None,
        margin_engine: me,
        insurance_fund: None,
        pricefeed: None,
        spot_price_twap_interval: None,
    };
    match admin {
        1 => {
            let _ = sim.exec(OWNER, ExecuteMsg::SetOpen { open: false });
            // the curve and the reported net position are what they were also *while* the market is closed
            let mid = sim.state();
            if (st0.quote_asset_reserve, st0.base_asset_reserve, st0.total_position_size) != (mid.quote_asset_reserve, mid.base_asset_reserve, mid.total_position_size) {
                let _ = sim.exec(OWNER, ExecuteMsg::SetOpen { open: true });
                return Some(format!(
                    "closing the market changed the reported curve state: reserves ({}, {}) net {} -> ({}, {}) net {}",
                    st0.quote_asset_reserve, st0.base_asset_reserve, st0.total_position_size, mid.quote_asset_reserve, mid.base_asset_reserve, mid.total_position_size
                ));
            }
            let _ = sim.exec(OWNER, ExecuteMsg::SetOpen { open: true });
        }
        4 => {
            // the margin engine settles funding as soon as it is due: a settlement is not a trade either
            let due = st0.next_funding_time;
            let now = sim.now();
            sim.next_block(due.saturating_sub(now) + 1);
            // (whether it is accepted is not this property's business)
            let _ = sim.exec(ENGINE, ExecuteMsg::SettleFunding {});
        }
        2 => {
            let _ = sim.exec(OWNER, cfgmsg(Some("engine-typo".into()), None));
            let _ = sim.exec(OWNER, cfgmsg(Some(ENGINE.into()), None));
        }
        _ => {
            let _ = sim.exec(OWNER, cfgmsg(None, Some(sim.d / 1000)));
        }
    }
    let st1 = sim.state();
    if (st0.quote_asset_reserve, st0.base_asset_reserve, st0.total_position_size) != (st1.quote_asset_reserve, st1.base_asset_reserve, st1.total_position_size) {
        return Some(format!(
            "owner action {} changed the curve: reserves ({}, {}) net {} open {} -> ({}, {}) net {} open {}",
            admin, st0.quote_asset_reserve, st0.base_asset_reserve, st0.total_position_size, st0.open, st1.quote_asset_reserve, st1.base_asset_reserve, st1.total_position_size, st1.open
        ));
    }
    None
}
