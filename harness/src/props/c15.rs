//! C15 — per-block price band: opening trades cannot push the price past the limit.
use super::histprop::HistProp;
use crate::hist::{Act, Effect, Monitor, Step};
use crate::ops::{CfgProfile, Weights};
use crate::run::{Outcome, Violation};
use crate::world::{mul_div_floor, World};
use serde_json::json;

#[derive(Default)]
pub struct Mon {
    /// spot price of each vAMM at the first moment of the current block (= end of the previous block)
    pref: Vec<u128>,
    interesting: u64,
    /// spot price that closing the caller's whole position would leave, computed from the pre-state (OutputAmount answer)
    whole_close_price: Option<u128>,
}

/// lenient integer band: [floor(p*(D-l)/D), ceil(p*(D+l)/D)]
fn band(p: u128, l: u128, d: u128) -> (u128, u128) {
    let lo = mul_div_floor(p, d.saturating_sub(l), d);
    let hi_f = mul_div_floor(p, d + l, d);
    (lo, hi_f.saturating_add(1))
}

impl Monitor for Mon {
    fn begin(&mut self, w: &mut World, _out: &mut Outcome) {
        self.pref = (0..w.vamms.len()).map(|v| w.spot(v)).collect();
    }
    fn before(&mut self, it: &mut crate::hist::Interp, act: &Act, pre: &crate::hist::Obs, _out: &mut Outcome) -> Option<Violation> {
        self.whole_close_price = None;
        if let Act::Close { t, v, .. } = act {
            if let Some(p) = pre.pos[*v][*t].as_ref().filter(|p| !p.size.is_zero()) {
                let long = !p.size.is_negative();
                let dir = if long { margined_perp::margined_vamm::Direction::AddToAmm } else { margined_perp::margined_vamm::Direction::RemoveFromAmm };
                if let Some(q) = it.output_amount(*v, dir, p.size.value.u128()) {
                    let st = &pre.v[*v].state;
                    let (x, y, sz) = (st.quote_asset_reserve.u128(), st.base_asset_reserve.u128(), p.size.value.u128());
                    let (x1, y1) = if long { (x.checked_sub(q), y.checked_add(sz)) } else { (x.checked_add(q), y.checked_sub(sz)) };
                    if let (Some(x1), Some(y1)) = (x1, y1) {
                        if y1 > 0 {
                            self.whole_close_price = Some(mul_div_floor(x1, it.w.d, y1));
                        }
                    }
                }
            }
        }
        None
    }
    fn after(&mut self, w: &World, s: &Step, out: &mut Outcome) -> Option<Violation> {
        let d = w.d;
        if let Act::NextBlock { .. } = s.act {
            self.pref = s.post.v.iter().map(|v| v.spot).collect();
            return None;
        }
        let v = s.act.vamm()?;
        let l = s.pre.v[v].cfg.fluctuation_limit_ratio.u128();
        if l == 0 {
            return None;
        }
        let (lo, hi) = band(self.pref[v], l, d);
        let (spot0, spot1) = (s.pre.v[v].spot, s.post.v[v].spot);
        let drifted = spot0 != self.pref[v];
        match s.act {
            Act::Open { t, .. } => {
                let holds = s.post.pos[v][*t].as_ref().map(|p| !p.size.is_zero()).unwrap_or(false);
                if spot0 < lo || spot0 > hi {
                    out.count("open_attempt_with_price_already_outside");
                    self.interesting += 1;
                    if s.res.ok && holds {
                        return Some(
                            Violation::new(
                                "open_accepted_outside_band",
                                format!("OpenPosition ({:?}) accepted although spot {} was already outside [{}, {}] (reference {} , limit {})", s.effect, spot0, lo, hi, self.pref[v], l),
                            )
                            .with("effect", format!("{:?}", s.effect)),
                        );
                    }
                }
                if s.res.ok && holds {
                    out.count("open_band_checks");
                    if drifted {
                        self.interesting += 1;
                        out.count("open_after_in_block_drift");
                    }
                    // the upper edge is exact for an integer price (spot <= p(1+l) iff spot <= floor(p(D+l)/D)); at the lower
                    // edge one raw unit of rounding is conceded (floor instead of ceil)
                    if spot1 < lo || spot1 > hi.saturating_sub(1) {
                        return Some(
                            Violation::new(
                                "open_left_price_outside_band",
                                format!("successful OpenPosition ({:?}) left spot at {} outside [{}, {}] (reference {} , limit {}, spot before {})", s.effect, spot1, lo, hi, self.pref[v], l, spot0),
                            )
                            .with("effect", format!("{:?}", s.effect)),
                        );
                    }
                }
            }
            Act::Close { t, .. } if s.res.ok => {
                let frac = s.pre.ecfg.partial_liquidation_ratio.u128();
                if frac >= d {
                    return None;
                }
                out.count("close_band_checks");
                if drifted {
                    self.interesting += 1;
                    out.count("close_after_in_block_drift");
                }
                match s.effect {
                    Effect::Closed => {
                        let hi_e = mul_div_floor(self.pref[v], d + l, d);
                        let lo_e = mul_div_floor(self.pref[v], d.saturating_sub(l), d);
                        if spot1 == hi_e || spot1 == lo_e || spot1 == lo_e + 1 {
                            out.count("whole_close_landing_on_band_edge");
                        }
                        if spot1 < lo || spot1 > hi {
                            let long = s.pre.pos[v][*t].as_ref().map(|p| !p.size.is_negative()).unwrap_or(false);
                            return Some(
                                Violation::new(
                                    "whole_close_left_band",
                                    format!("ClosePosition closed the whole {} position and left spot at {} outside [{}, {}] (reference {}, limit {}, fraction {})", if long { "long" } else { "short" }, spot1, lo, hi, self.pref[v], l, frac),
                                )
                                .with("long", long),
                            );
                        }
                    }
                    Effect::PartialClosed | Effect::None => {
                        // "otherwise": only the fraction is closed because closing everything would have left the band. If the
                        // whole close would have landed inside the exact band (edges included) the position had to be closed whole.
                        if let Some(pw) = self.whole_close_price {
                            let p0 = self.pref[v];
                            let rem = (cosmwasm_std::Uint256::from(p0) * cosmwasm_std::Uint256::from(d.saturating_sub(l))) % cosmwasm_std::Uint256::from(d);
                            let lo_e = mul_div_floor(p0, d.saturating_sub(l), d) + if rem.is_zero() { 0 } else { 1 };
                            let hi_e = mul_div_floor(p0, d + l, d);
                            out.count("partial_close_decision_checks");
                            if pw == lo_e || pw == hi_e {
                                out.count("whole_close_price_exactly_on_band_edge");
                            }
                            if pw >= lo_e && pw <= hi_e {
                                return Some(Violation::new(
                                    "partial_close_although_whole_close_stays_in_band",
                                    format!("ClosePosition closed only a fraction although closing the whole position would have left spot at {} inside [{}, {}] (reference {}, limit {})", pw, lo_e, hi_e, p0, l),
                                ));
                            }
                        }
                        let (p0, p1) = (s.pre.pos[v][*t].as_ref()?, s.post.pos[v][*t].as_ref()?);
                        let (a, b) = (p0.size.value.u128(), p1.size.value.u128());
                        let exp = mul_div_floor(a, frac, d);
                        let closed = a.saturating_sub(b);
                        out.count("partial_close_fraction_checks");
                        if closed != exp {
                            let delta = exp.abs_diff(closed);
                            let st = &s.pre.v[v].state;
                            let bound = st.base_asset_reserve.u128() / st.quote_asset_reserve.u128().max(1) + 2;
                            return Some(
                                Violation::new(
                                    "partial_close_fraction",
                                    format!("partial close: size {} -> {} (closed {}) but the configured fraction {} of it is {}", a, b, closed, frac, exp),
                                )
                                .with("under", closed < exp)
                                .with("delta", delta)
                                .with("within_rounding_bound", closed < exp && delta <= bound),
                            );
                        }
                    }
                    _ => {}
                }
            }
            _ => {}
        }
        None
    }
    fn end(&mut self, _w: &World, out: &mut Outcome) {
        out.nontrivial = self.interesting >= 1;
        out.summary = Some(json!({"interesting_events": self.interesting}));
    }
}

pub fn prop() -> HistProp {
    let mut p = CfgProfile::general();
    p.fluct_always = true;
    let mut w = Weights::trading();
    w.open = 30;
    w.push = 22;
    w.close = 18;
    w.block = 8;
    w.squeeze = 0;
    w.liq_weakest = 2;
    w.liquidate = 1;
    w.funding = 3;
    w.ecfg = 2;
    // the owner closes / re-opens markets in between (the band's reference is still the previous block's final price)
    w.setopen = 2;
    // whale orders sized so that the following whole close lands on the band's edge
    w.edge_close = 4;
    w.vcfg = 2;
    // the largest whale order the band still accepts (or one unit beside it): the price sits exactly on the band's edge
    w.edge = 4;
    // whitelist edits and pauser hand-overs in between (neither lifts the band)
    w.whitelist = 2;
    w.handover = 1;
    HistProp {
        id: "C15",
        level: "exploration",
        profile: p,
        weights: w,
        min_ops: 5,
        max_ops: (40, 100),
        cases: (20_000, 400_000),
        make: || Box::new(Mon::default()),
        rule: "deployments whose vAMMs all have a fluctuation limit from {0.1%, 1%, 2%, 5%, 12.5%, 30%}, many trades per block by several traders drifting the price, whale trades sized from the reserves to land at 50% / 90% / 99% / 100% / 101% / 150% of the limit, both directions, block boundaries in between, closes with partial-close fractions from {0, 25%, 33.3%, 50%, 95%, 100%}. The harness records each vAMM's spot price at the first moment of every block (= price at the end of the previous block) as reference. (a) a successful OpenPosition leaving size != 0 leaves spot inside [floor(ref*(D-l)/D), floor(ref*(D+l)/D)] (the upper edge is exact for an integer price); (b) if spot is already outside that band such an OpenPosition must fail; (c) a successful ClosePosition with fraction < 100%: position gone => spot inside the band; position remains => |size| fell by exactly floor(|size|*fraction/D). Nothing is asserted in the vAMM's creation block (deployments advance one block first). Non-trivial: an open or close in a block in which the price had already moved, or an open attempt with the price already outside the band. Distinct by digest of (cfg, ops).",
        assumptions: &["the band is evaluated with integer rounding in the lenient direction (one raw price unit)"],
        eval_counter: None,
    }
}
