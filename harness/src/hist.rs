//! Engine-level history interpreter: resolves ops against the current state, executes them on the
//! real contracts, records observations before/after every transaction and feeds a property monitor.
use crate::ops::{HistCase, Op};
use crate::refmath::S;
use crate::run::{idx, Ctx, Outcome, Violation};
use crate::world::{mul_div_floor, u, TxRes, World, N_TRADERS, WHALE};
use cosmwasm_std::{Addr, Uint128};
use margined_common::integer::Integer;
use margined_perp::margined_engine as eng;
use margined_perp::margined_engine::{Position, Side};
use margined_perp::margined_insurance_fund as fund;
use margined_perp::margined_vamm as vamm;
use margined_perp::margined_vamm::Direction;
use serde_json::{json, Value};

#[derive(Clone, Debug, PartialEq)]
pub struct VObs {
    pub state: vamm::StateResponse,
    pub cfg: vamm::ConfigResponse,
    pub spot: u128,
    pub cpf: S,
    pub registered: bool,
}

#[derive(Clone, Debug, PartialEq)]
pub struct Obs {
    pub height: u64,
    pub time: u64,
    /// pos[v][t]
    pub pos: Vec<Vec<Option<Position>>>,
    pub bal: Vec<u128>,
    pub v: Vec<VObs>,
    pub ecfg: eng::ConfigResponse,
    pub estate: eng::StateResponse,
    pub paused: bool,
}

pub fn observe(w: &World) -> Obs {
    let nv = w.vamms.len();
    let mut pos = vec![];
    let mut vs = vec![];
    for v in 0..nv {
        pos.push(w.traders.iter().map(|t| w.position(v, t)).collect());
        let (neg, mag) = w.cpf(v);
        vs.push(VObs {
            state: w.vamm_state(v),
            cfg: w.vamm_config(v),
            spot: w.spot(v),
            cpf: S::new(neg, crate::refmath::u256(mag)),
            registered: w.is_registered(&w.vamms[v]),
        });
    }
    Obs {
        height: w.height(),
        time: w.now(),
        pos,
        bal: w.balances(),
        v: vs,
        ecfg: w.engine_config(),
        estate: w.engine_state(),
        paused: w.paused,
    }
}

#[derive(Clone, Debug)]
pub enum Act {
    Open { t: usize, v: usize, buy: bool, margin: u128, lev: u128, limit: u128, attach: u128, directed: bool },
    Close { t: usize, v: usize, limit: u128 },
    /// `attach`: coins sent along in a native deployment (normally = amount; sometimes more or less)
    Deposit { t: usize, v: usize, amount: u128, attach: u128 },
    Withdraw { t: usize, v: usize, amount: u128 },
    /// `attach`: native coins the caller attaches although a liquidation takes no payment (0 in cw20 deployments)
    Liquidate { who: String, v: usize, target: usize, limit: u128, attach: u128 },
    /// `attach`: native coins the caller attaches although a settlement takes no payment (only where the check asks for it)
    PayFunding { who: String, v: usize, attach: u128 },
    NextBlock { dt: u64 },
    SetOracle { v: usize, price: u128 },
    /// `attach`: native coins sent along (0 except for alias orders of a native deployment)
    EngineAdmin { sender: String, msg: eng::ExecuteMsg, attach: u128 },
    VammAdmin { v: usize, sender: String, msg: vamm::ExecuteMsg },
    FundAdmin { sender: String, msg: fund::ExecuteMsg },
    /// a trader withdraws (or grants again) the cw20 allowance the engine pulls collateral with; no counterpart in a native deployment
    Allowance { t: usize, grant: bool },
    Skip,
}

impl Act {
    pub fn name(&self) -> &'static str {
        match self {
            Act::Open { .. } => "open",
            Act::Close { .. } => "close",
            Act::Deposit { .. } => "deposit",
            Act::Withdraw { .. } => "withdraw",
            Act::Liquidate { .. } => "liquidate",
            Act::PayFunding { .. } => "pay_funding",
            Act::NextBlock { .. } => "next_block",
            Act::SetOracle { .. } => "set_oracle",
            Act::EngineAdmin { .. } => "engine_admin",
            Act::VammAdmin { .. } => "vamm_admin",
            Act::FundAdmin { .. } => "fund_admin",
            Act::Allowance { .. } => "allowance",
            Act::Skip => "skip",
        }
    }
    pub fn is_engine_tx(&self) -> bool {
        matches!(
            self,
            Act::Open { .. }
                | Act::Close { .. }
                | Act::Deposit { .. }
                | Act::Withdraw { .. }
                | Act::Liquidate { .. }
                | Act::PayFunding { .. }
                | Act::EngineAdmin { .. }
        )
    }
    /// (vamm, trader index) whose position is the subject of the action
    pub fn subject(&self) -> Option<(usize, usize)> {
        match self {
            Act::Open { t, v, .. } | Act::Close { t, v, .. } | Act::Deposit { t, v, .. } | Act::Withdraw { t, v, .. } => Some((*v, *t)),
            Act::Liquidate { v, target, .. } => Some((*v, *target)),
            _ => None,
        }
    }
    pub fn vamm(&self) -> Option<usize> {
        match self {
            Act::Open { v, .. }
            | Act::Close { v, .. }
            | Act::Deposit { v, .. }
            | Act::Withdraw { v, .. }
            | Act::Liquidate { v, .. }
            | Act::PayFunding { v, .. }
            | Act::SetOracle { v, .. }
            | Act::VammAdmin { v, .. } => Some(*v),
            _ => None,
        }
    }
}

#[derive(Clone, Copy, Debug, PartialEq, Eq)]
pub enum Effect {
    None,
    Opened,
    Increased,
    Reduced,
    Reversed,
    Closed,
    PartialClosed,
    LiqFull,
    LiqPartial,
    /// position changed in a way none of the above describes (e.g. grew or flipped in a close/liquidation)
    Odd,
}

pub fn size_s(p: &Option<Position>) -> S {
    match p {
        Some(p) => S::from_integer(p.size),
        None => S::zero(),
    }
}

pub fn classify(act: &Act, pre: &Option<Position>, post: &Option<Position>, ok: bool) -> Effect {
    if !ok {
        return Effect::None;
    }
    let (a, b) = (size_s(pre), size_s(post));
    match act {
        Act::Open { .. } => {
            if a.is_zero() && !b.is_zero() {
                Effect::Opened
            } else if !a.is_zero() && b.is_zero() {
                Effect::Closed
            } else if a.is_zero() && b.is_zero() {
                Effect::None
            } else if a.is_neg() != b.is_neg() {
                Effect::Reversed
            } else if b.mag > a.mag {
                Effect::Increased
            } else if b.mag < a.mag {
                Effect::Reduced
            } else {
                Effect::None
            }
        }
        Act::Close { .. } => {
            if post.is_none() || b.is_zero() {
                Effect::Closed
            } else if a.is_neg() == b.is_neg() && b.mag < a.mag {
                Effect::PartialClosed
            } else if a == b {
                // a partial close with a configured fraction of zero closes nothing
                Effect::None
            } else {
                Effect::Odd
            }
        }
        Act::Liquidate { .. } => {
            // full = the position no longer exists; a position that remains (even with size 0 after a
            // 100% partial liquidation) went through the partial path
            if post.is_none() {
                Effect::LiqFull
            } else if (b.is_zero() || a.is_neg() == b.is_neg()) && b.mag < a.mag {
                Effect::LiqPartial
            } else if a == b {
                Effect::None
            } else {
                Effect::Odd
            }
        }
        _ => Effect::None,
    }
}

pub struct Step<'a> {
    pub i: usize,
    pub act: &'a Act,
    pub pre: &'a Obs,
    pub post: &'a Obs,
    pub res: &'a TxRes,
    pub effect: Effect,
    pub sender: &'a str,
}

pub trait Monitor {
    fn begin(&mut self, _w: &mut World, _out: &mut Outcome) {}
    /// called with the pre-state before the transaction is sent; may run what-if experiments (must restore)
    fn before(&mut self, _it: &mut Interp, _act: &Act, _pre: &Obs, _out: &mut Outcome) -> Option<Violation> {
        None
    }
    fn after(&mut self, w: &World, s: &Step, out: &mut Outcome) -> Option<Violation>;
    fn end(&mut self, _w: &World, _out: &mut Outcome) {}
    /// true if the world must be re-observed after `before` (the monitor ran what-if experiments)
    fn dirty_before(&self) -> bool {
        false
    }
}

pub const WHO: [&str; 8] = ["liquidator", "liquidator", "stranger", "owner", "alice", "bob", "carol", "whale"];

fn isqrt(n: u128) -> u128 {
    if n < 2 {
        return n;
    }
    let mut x = (n as f64).sqrt() as u128;
    // fix up float error
    while x.checked_mul(x).map(|s| s > n).unwrap_or(true) {
        x -= 1;
    }
    while (x + 1).checked_mul(x + 1).map(|s| s <= n).unwrap_or(false) {
        x += 1;
    }
    x
}

/// quote amount of a trade that moves spot by `bps_x100` (1e-6 units) up or down on a constant-product curve
pub fn push_quote_amount(x: u128, up: bool, ppm: u128) -> u128 {
    // sqrt(1 +/- s) with s = ppm/1e6, computed on integers scaled by 1e12
    let one = 1_000_000_000_000u128;
    let s = ppm.saturating_mul(1_000_000);
    if up {
        let r = isqrt((one + s).saturating_mul(one)); // sqrt(1+s) * 1e12
        mul_div_floor(x, r.saturating_sub(one), one)
    } else {
        let s = s.min(one - 1);
        let r = isqrt((one - s) * one);
        mul_div_floor(x, one - r, one)
    }
}

fn jitter(knob: u16, modulus: u128) -> u128 {
    if modulus == 0 {
        0
    } else {
        (knob as u128).wrapping_mul(104_729) % modulus
    }
}

pub fn dir_of(buy: bool) -> Direction {
    if buy {
        Direction::AddToAmm
    } else {
        Direction::RemoveFromAmm
    }
}

pub struct Interp {
    pub w: World,
}

/// Prefer a trader that holds a position on `v` (4 times out of 5); deterministic in (state, knob).
fn pick_holder(pre: &Obs, v: usize, t: u8, exclude_whale: bool) -> usize {
    let raw = (t as usize) % N_TRADERS;
    // a flat record that still holds margin (left by an order that traded the position exactly flat, or by a 100% partial
    // liquidation) counts: its owner can still deposit to it and withdraw from it
    let has = |i: usize| pre.pos[v][i].as_ref().map(|p| !p.size.is_zero() || !p.margin.is_zero()).unwrap_or(false);
    if has(raw) && !(exclude_whale && raw == WHALE) {
        return raw;
    }
    let holders: Vec<usize> = (0..N_TRADERS).filter(|i| has(*i) && !(exclude_whale && *i == WHALE)).collect();
    if holders.is_empty() || (pre.height + t as u64) % 5 == 0 {
        raw
    } else {
        holders[(t as usize + pre.height as usize) % holders.len()]
    }
}

impl Interp {
    fn v_of(&self, v: u8) -> usize {
        (v as usize) % self.w.vamms.len()
    }

    pub fn margin_ratio(&self, v: usize, t: usize) -> Option<S> {
        self.w
            .query::<Integer, _>(
                &self.w.engine,
                &eng::QueryMsg::MarginRatio {
                    vamm: self.w.vamms[v].to_string(),
                    trader: self.w.traders[t].clone(),
                },
            )
            .ok()
            .map(S::from_integer)
    }

    pub fn input_amount(&self, v: usize, buy: bool, quote: u128) -> Option<u128> {
        self.w
            .query::<Uint128, _>(
                &self.w.vamms[v],
                &vamm::QueryMsg::InputAmount {
                    direction: dir_of(buy),
                    amount: u(quote),
                },
            )
            .ok()
            .map(|x| x.u128())
    }

    pub fn output_amount(&self, v: usize, d: Direction, base: u128) -> Option<u128> {
        self.w
            .query::<Uint128, _>(&self.w.vamms[v], &vamm::QueryMsg::OutputAmount { direction: d, amount: u(base) })
            .ok()
            .map(|x| x.u128())
    }

    /// what a cw20 deployment would pull from the trader for this OpenPosition (used as attached funds in native worlds)
    pub fn expected_pull(&self, pre: &Obs, t: usize, v: usize, buy: bool, margin: u128, lev: u128) -> u128 {
        let d = self.w.d;
        let notional = mul_div_floor(margin, lev, d);
        let vc = &pre.v[v].cfg;
        let fees = crate::refmath::fee(notional, vc.toll_ratio.u128(), d) + crate::refmath::fee(notional, vc.spread_ratio.u128(), d);
        let swap_margin = |n: u128| if lev == 0 { 0 } else { mul_div_floor(n, d, lev) };
        match &pre.pos[v][t] {
            None => fees + swap_margin(notional),
            Some(p) if p.size.is_zero() => fees + swap_margin(notional),
            Some(p) => {
                let long = p.direction == Direction::AddToAmm;
                if long == buy {
                    fees + swap_margin(notional)
                } else {
                    let pn = self.output_amount(v, p.direction.clone(), p.size.value.u128()).unwrap_or(0);
                    if pn > notional {
                        fees
                    } else {
                        // reversal: old margin and realised pnl are netted against the new margin
                        let pnl = crate::refmath::pnl(long, pn, p.notional.u128());
                        let rest = notional - pn;
                        if rest.checked_div(lev.max(1)).unwrap_or(0) == 0 {
                            fees
                        } else {
                            let net = S::pos(swap_margin(rest)).sub(&S::pos(p.margin.u128())).sub(&pnl);
                            if net.is_neg() {
                                fees
                            } else {
                                fees + net.mag_u128().unwrap_or(0)
                            }
                        }
                    }
                }
            }
        }
    }

    fn whale_trade(&self, pre: &Obs, v: usize, up: bool, quote: u128) -> Act {
        let d = self.w.d;
        let quote = quote.max(1);
        let attach = if self.w.cfg.native { self.expected_pull(pre, WHALE, v, up, quote, d) } else { 0 };
        Act::Open {
            t: WHALE,
            v,
            buy: up,
            margin: quote,
            lev: d,
            limit: 0,
            attach,
            directed: true,
        }
    }

    pub fn resolve(&mut self, op: &Op, pre: &Obs) -> Act {
        let d = self.w.d;
        match op {
            Op::Open { t, v, buy, margin, lev, limit } => {
                let v = self.v_of(*v);
                let t = (*t as usize) % N_TRADERS;
                let q = pre.v[v].state.quote_asset_reserve.u128();
                let wallet = pre.bal[t];
                let m = match idx(*margin, 16) {
                    0 => q / 1000,
                    1 => q / 100,
                    2 => q / 10_000,
                    3 => q / 20,
                    4 => q / 10,
                    5 => q / 5,
                    6 => q * 2 / 5,
                    7 => q / 100_000,
                    8 => q / 1_000_000,
                    9 => 1,
                    10 => 2,
                    11 => 3,
                    12 => wallet,
                    13 => wallet.saturating_add(1),
                    14 => d,
                    _ => q / 50,
                };
                let m = if idx(*margin, 16) >= 9 && idx(*margin, 16) <= 13 { m } else { m + jitter(*margin, d) };
                let mut m = m.max(1);
                // boundary class: an order against the trader's own position whose notional is within a few raw units
                // of the position's current value (the reduce / exactly-flat / reverse-with-dust-remainder boundary)
                let mut forced_lev: Option<u128> = None;
                if (*margin as u32 + *lev as u32) % 5 == 0 {
                    if let Some(p) = &pre.pos[v][t] {
                        let long = !p.size.is_negative();
                        if !p.size.is_zero() && long != *buy {
                            if let Some(pn) = self.output_amount(v, p.direction.clone(), p.size.value.u128()) {
                                let offs: [i128; 9] = [0, -1, 1, -2, 2, 3, -3, 10, -10];
                                let off = offs[(*margin as usize / 5) % offs.len()];
                                let target = (pn as i128 + off).max(1) as u128;
                                m = target;
                                forced_lev = Some(d);
                            }
                        }
                    }
                }
                let imr = pre.ecfg.initial_margin_ratio.u128();
                let max_lev = if imr == 0 { 100 * d } else { mul_div_floor(d, d, imr) };
                let l = match idx(*lev, 14) {
                    0 => d,
                    1 => (2 * d).min(max_lev),
                    2 => (5 * d).min(max_lev),
                    3 => (10 * d).min(max_lev),
                    4 => (3 * d + jitter(*lev, d)).min(max_lev),
                    5 => max_lev,
                    6 => max_lev.saturating_sub(1),
                    7 => max_lev.saturating_add(1),
                    8 => d - 1,
                    9 => max_lev.saturating_mul(2),
                    10 => (d + d / 2).min(max_lev),
                    11 => (d + max_lev) / 2,
                    12 => d + jitter(*lev, max_lev.saturating_sub(d).max(1)),
                    _ => (4 * d).min(max_lev),
                };
                let l = forced_lev.unwrap_or(l);
                let notional = mul_div_floor(m, l, d);
                let lim = match limit {
                    0 | 1 => 0,
                    mode => match self.input_amount(v, *buy, notional) {
                        None => 0,
                        Some(b) => match (mode, buy) {
                            (2, _) => b,
                            (3, true) => b.saturating_sub(1),   // receive at least b-1: passes
                            (3, false) => b.saturating_add(1),  // owe at most b+1: passes
                            (_, true) => b.saturating_add(1),   // fails
                            (_, false) => b.saturating_sub(1).max(1),
                        },
                    },
                };
                let attach = if self.w.cfg.native { self.expected_pull(pre, t, v, *buy, m, l) } else { 0 };
                Act::Open {
                    t,
                    v,
                    buy: *buy,
                    margin: m,
                    lev: l,
                    limit: lim,
                    attach,
                    directed: false,
                }
            }
            Op::Close { t, v, limit } => {
                let v = self.v_of(*v);
                let t = pick_holder(pre, v, *t, false);
                let lim = match (limit, &pre.pos[v][t]) {
                    (0 | 1, _) | (_, None) => 0,
                    (mode, Some(p)) => {
                        let long = p.direction == Direction::AddToAmm;
                        match self.output_amount(v, p.direction.clone(), p.size.value.u128()) {
                            None => 0,
                            Some(qv) => match (mode, long) {
                                (2, _) => qv,
                                (3, true) => qv.saturating_sub(1),
                                (3, false) => qv.saturating_add(1),
                                (_, true) => qv.saturating_add(1),
                                (_, false) => qv.saturating_sub(1).max(1),
                            },
                        }
                    }
                };
                Act::Close { t, v, limit: lim }
            }
            Op::Deposit { t, v, amt } => {
                let v = self.v_of(*v);
                let t = pick_holder(pre, v, *t, false);
                let q = pre.v[v].state.quote_asset_reserve.u128();
                // what the position lacks to close at exactly zero equity (margin + spot PnL - funding owed), if it is under water
                let deficit = |it: &Interp| -> Option<u128> {
                    let pr = crate::oracle::pos_ref(&it.w, pre, v, t)?;
                    let e = pr.equity(&pr.pnl_spot()?);
                    if e.is_neg() {
                        e.mag_u128()
                    } else {
                        None
                    }
                };
                let a = match idx(*amt, 10) {
                    0 => d,
                    1 => 10 * d + jitter(*amt, d),
                    2 => q / 1000 + jitter(*amt, d),
                    3 => 1,
                    4 => pre.bal[t].saturating_add(1),
                    5 => q / 50,
                    6 => 0,
                    7 => deficit(self).unwrap_or(d),
                    8 => deficit(self).map(|x| x + 1).unwrap_or(2),
                    _ => deficit(self).map(|x| x.saturating_sub(1)).unwrap_or(3),
                };
                let attach = match *amt % 7 {
                    3 => a + 1 + jitter(*amt, d),
                    5 if a > 1 => a - 1,
                    _ => a,
                };
                Act::Deposit { t, v, amount: a, attach }
            }
            Op::Withdraw { t, v, amt } => {
                let v = self.v_of(*v);
                let t = pick_holder(pre, v, *t, false);
                let fc: Option<S> = self
                    .w
                    .query::<Integer, _>(
                        &self.w.engine,
                        &eng::QueryMsg::FreeCollateral {
                            vamm: self.w.vamms[v].to_string(),
                            trader: self.w.traders[t].clone(),
                        },
                    )
                    .ok()
                    .map(S::from_integer);
                let margin = pre.pos[v][t].as_ref().map(|p| p.margin.u128()).unwrap_or(0);
                let fcv = match fc {
                    Some(f) if !f.is_neg() => f.mag_u128().unwrap_or(0),
                    _ => 0,
                };
                let a = match idx(*amt, 9) {
                    0 => fcv / 2,
                    1 => fcv,
                    2 => fcv.saturating_add(1),
                    3 => fcv.saturating_sub(1),
                    4 => fcv / 10,
                    5 => 1,
                    6 => margin,
                    7 => fcv.saturating_mul(2),
                    _ => d,
                };
                Act::Withdraw { t, v, amount: a.max(1) }
            }
            Op::Liquidate { who, v, target, limit } => {
                let v = self.v_of(*v);
                let target = pick_holder(pre, v, *target, false);
                let lim = match (limit, &pre.pos[v][target]) {
                    (2, Some(p)) => {
                        // a limit on the failing side of the quoted amount
                        let long = p.direction == Direction::AddToAmm;
                        self.output_amount(v, p.direction.clone(), p.size.value.u128())
                            .map(|qv| if long { qv.saturating_mul(2) } else { (qv / 2).max(1) })
                            .unwrap_or(0)
                    }
                    // limits any execution satisfies: "receive at least one unit" for a long, "pay at most the largest number" for a short
                    (3, Some(p)) => {
                        if p.direction == Direction::AddToAmm {
                            1
                        } else {
                            u128::MAX
                        }
                    }
                    // comfortably on the satisfied side: half / double the quoted amount
                    (4, Some(p)) => {
                        let long = p.direction == Direction::AddToAmm;
                        self.output_amount(v, p.direction.clone(), p.size.value.u128())
                            .map(|qv| if long { (qv / 4).max(1) } else { qv.saturating_mul(4).saturating_add(4) })
                            .unwrap_or(0)
                    }
                    _ => 0,
                };
                // one liquidation in three by a funded caller of a native deployment comes with stray coins attached
                let whos = WHO[(*who as usize) % WHO.len()].to_string();
                let attach = if self.w.cfg.native && *limit == 1 && self.w.balance(&whos) > 7 { 7 } else { 0 };
                Act::Liquidate {
                    who: whos,
                    v,
                    target,
                    limit: lim,
                    attach,
                }
            }
            Op::LiquidateWeakest { who, v } => {
                let v = self.v_of(*v);
                let mut best: Option<(S, usize)> = None;
                for t in 0..N_TRADERS {
                    if pre.pos[v][t].as_ref().map(|p| !p.size.is_zero()).unwrap_or(false) {
                        if let Some(r) = self.margin_ratio(v, t) {
                            if best.as_ref().map(|b| r.lt(&b.0)).unwrap_or(true) {
                                best = Some((r, t));
                            }
                        }
                    }
                }
                let target = best.map(|b| b.1).unwrap_or(0);
                // one attempt in three is followed, a block later, by the owner closing whatever the liquidation left
                if (*who as usize + pre.height as usize) % 3 == 0 {
                    self.w.follow.push_back(Act::NextBlock { dt: 15 });
                    self.w.follow.push_back(Act::Close { t: target, v, limit: 0 });
                }
                Act::Liquidate {
                    who: WHO[(*who as usize) % WHO.len()].to_string(),
                    v,
                    target,
                    limit: 0,
                    attach: 0,
                }
            }
            Op::PayFunding { who, v } => {
                let whos = WHO[(*who as usize) % WHO.len()].to_string();
                // where the check asks for it, one settlement in three by a funded caller of a native deployment comes with stray coins
                let attach = if self.w.cfg.native && self.w.stray_funding_coins && *who % 3 == 1 && self.w.balance(&whos) > 7 { 7 } else { 0 };
                Act::PayFunding { who: whos, v: self.v_of(*v), attach }
            }
            Op::NextBlock { dt } => {
                let period = pre.v[0].cfg.funding_period;
                let dtv = match dt % 16 {
                    // between one minute and the 15-minute TWAP window
                    12 => 120,
                    13 => 300,
                    14 => 600,
                    15 => 450,
                    0 => 15,
                    1 => 1,
                    2 => 60,
                    3 => 900,
                    4 => 901,
                    5 => 3600,
                    6 => period,
                    7 => period / 2,
                    8 => 86400,
                    9 => {
                        // land exactly on the next funding time of vAMM 0 (or 1 s before it)
                        let nf = pre.v[0].state.next_funding_time;
                        if nf > pre.time {
                            nf - pre.time
                        } else {
                            7
                        }
                    }
                    10 => {
                        let nf = pre.v[0].state.next_funding_time;
                        if nf > pre.time + 1 {
                            nf - pre.time - 1
                        } else {
                            3
                        }
                    }
                    // a new block within the same second (sub-second block times)
                    _ => 0,
                };
                Act::NextBlock { dt: dtv }
            }
            Op::SetOracle { v, knob } => {
                let v = self.v_of(*v);
                let spot = pre.v[v].spot;
                let tab: [u128; 18] = [100, 101, 99, 95, 105, 110, 90, 111, 89, 109, 91, 120, 80, 150, 50, 200, 30, 300];
                // four more classes: the oracle exactly on / one unit beside the 10% spread boundary, on either side of spot
                let k = idx(*knob, tab.len() + 4);
                let price = if k < tab.len() {
                    let f = tab[k];
                    (spot / 100 * f + jitter(*knob, (spot / 1000).max(1))).max(1)
                } else {
                    let above = mul_div_floor(spot, 10, 9) + 1; // smallest oracle with (oracle - spot)/oracle >= 10% (up to truncation)
                    let below = mul_div_floor(spot, 10, 11); // largest oracle with (spot - oracle)/oracle >= 10%
                    match k - tab.len() {
                        0 => above,
                        1 => above.saturating_sub(1).max(1),
                        2 => below.max(1),
                        _ => below + 1,
                    }
                };
                Act::SetOracle { v, price }
            }
            Op::PushPrice { v, up, strength } => {
                let v = self.v_of(*v);
                let fl = pre.v[v].cfg.fluctuation_limit_ratio.u128();
                let flppm = mul_div_floor(fl, 1_000_000, d);
                let tab: Vec<u128> = vec![
                    10_000,
                    5_000,
                    20_000,
                    50_000,
                    100_000,
                    1_000,
                    200_000,
                    500_000,
                    flppm / 2,
                    flppm * 9 / 10,
                    flppm * 99 / 100,
                    flppm,
                    flppm * 101 / 100,
                    flppm * 3 / 2,
                    900_000,
                ];
                let ppm = tab[idx(*strength, tab.len())].max(100);
                let x = pre.v[v].state.quote_asset_reserve.u128();
                let qamt = push_quote_amount(x, *up, ppm);
                self.whale_trade(pre, v, *up, qamt)
            }
            Op::PushEdge { v, up, knob } => {
                let v = self.v_of(*v);
                let fl = pre.v[v].cfg.fluctuation_limit_ratio.u128();
                if fl == 0 {
                    return Act::Skip;
                }
                let flppm = mul_div_floor(fl, 1_000_000, d);
                let x = pre.v[v].state.quote_asset_reserve.u128();
                // surely beyond the band even if the price has drifted to the other edge within the block
                let (mut lo, mut hi) = (0u128, push_quote_amount(x, *up, (flppm * 5 / 2 + 1_000).min(990_000)).max(2));
                let snap = self.w.snapshot();
                for _ in 0..130 {
                    if hi - lo <= 1 {
                        break;
                    }
                    let mid = lo + (hi - lo) / 2;
                    let act = self.whale_trade(pre, v, *up, mid);
                    let r = self.exec_act(&act);
                    self.w.restore(&snap);
                    if r.ok {
                        lo = mid;
                    } else {
                        hi = mid;
                    }
                }
                if lo == 0 {
                    return Act::Skip;
                }
                let amt = match idx(*knob, 5) {
                    0 | 1 | 2 => lo,
                    3 => lo.saturating_sub(1).max(1),
                    _ => lo + 1,
                };
                self.whale_trade(pre, v, *up, amt)
            }
            Op::Squeeze { v, target, knob } => {
                let v = self.v_of(*v);
                let target = pick_holder(pre, v, *target, true);
                let p = match &pre.pos[v][target] {
                    Some(p) if !p.size.is_zero() && target != WHALE => p.clone(),
                    _ => return Act::Skip,
                };
                let long = !p.size.is_negative();
                let up = !long; // adverse direction
                let maint = S::pos(pre.ecfg.maintenance_margin_ratio.u128());
                let offs: [i128; 8] = [0, -1, 1, -20, 20, -100, 100, -300]; // in 1/1000 of D
                let off = offs[idx(*knob, offs.len())];
                let goal = maint.add(&S::from_i128(off * (d as i128) / 1000));
                let x = pre.v[v].state.quote_asset_reserve.u128();
                // bisection on the price move (ppm): ratio decreases with a larger adverse move
                let (mut lo, mut hi) = (0u128, if up { 5_000_000u128 } else { 980_000u128 });
                let snap = self.w.snapshot();
                for _ in 0..12 {
                    let mid = (lo + hi) / 2;
                    let act = self.whale_trade(pre, v, up, push_quote_amount(x, up, mid));
                    let r = self.exec_act(&act);
                    let ratio = if r.ok { self.margin_ratio(v, target) } else { None };
                    self.w.restore(&snap);
                    match ratio {
                        Some(rt) if rt.gt(&goal) => lo = mid,
                        Some(_) => hi = mid,
                        None => hi = mid,
                    }
                }
                let ppm = if idx(*knob, 2) == 0 { hi } else { lo };
                if ppm == 0 {
                    return Act::Skip;
                }
                self.whale_trade(pre, v, up, push_quote_amount(x, up, ppm))
            }
            Op::EngineCfg { field, knob, knob2 } => {
                let vals = |k: u16| -> u128 {
                    let tab: [u128; 14] = [
                        d / 20,
                        0,
                        d / 10,
                        d,
                        d + 1,
                        d / 100,
                        d / 2,
                        1,
                        d - 1,
                        d / 4,
                        d / 40,
                        d * 95 / 100,
                        d / 16,
                        2 * d,
                    ];
                    tab[idx(k, tab.len())]
                };
                let imr = pre.ecfg.initial_margin_ratio.u128();
                let mmr = pre.ecfg.maintenance_margin_ratio.u128();
                let rel = |k: u16, base: u128| -> u128 {
                    match idx(k, 5) {
                        0 => base,
                        1 => base.saturating_add(1),
                        2 => base.saturating_sub(1),
                        3 => base / 2,
                        _ => base.saturating_mul(2),
                    }
                };
                let (mut i, mut m, mut p, mut l) = (None, None, None, None);
                let mut pool = None;
                let mut fund_arg = None;
                match field % 9 {
                    8 => {
                        // the owner points the engine at the other fee pool, in half of the cases re-stating the insurance fund
                        // (unchanged) in the same message
                        let other = if self.w.fee_pool == self.w.pools[0] { &self.w.pools[1] } else { &self.w.pools[0] };
                        pool = Some(other.to_string());
                        if idx(*knob, 2) == 0 {
                            fund_arg = Some(self.w.fund.to_string());
                        }
                    }
                    0 => i = Some(vals(*knob)),
                    1 => m = Some(vals(*knob)),
                    2 => p = Some(vals(*knob)),
                    3 => l = Some(vals(*knob)),
                    4 => {
                        i = Some(vals(*knob));
                        m = Some(vals(*knob2));
                    }
                    5 => i = Some(rel(*knob, mmr)),
                    6 => m = Some(rel(*knob, imr)),
                    _ => {
                        i = Some(vals(*knob));
                        m = Some(rel(*knob2, vals(*knob)));
                    }
                }
                Act::EngineAdmin {
                    sender: self.w.owner.clone(),
                    msg: eng::ExecuteMsg::UpdateConfig {
                        owner: None,
                        insurance_fund: fund_arg,
                        fee_pool: pool,
                        initial_margin_ratio: i.map(u),
                        maintenance_margin_ratio: m.map(u),
                        partial_liquidation_ratio: p.map(u),
                        liquidation_fee: l.map(u),
                    },
                 attach: 0 }
            }
            Op::VammCfg { v, field, knob } => {
                let v = self.v_of(*v);
                let ratio_tab: [u128; 10] = [0, d / 100, d / 10, d, d + 1, 1, d / 20, d / 1000, d - 1, d / 2];
                let r = ratio_tab[idx(*knob, ratio_tab.len())];
                let q = pre.v[v].state.quote_asset_reserve.u128();
                let b = pre.v[v].state.base_asset_reserve.u128();
                let oi = pre.estate.open_interest_notional.u128();
                let cap_tab = |unit: u128, cur: u128| -> u128 {
                    let t: [u128; 8] = [0, unit / 10, cur, cur.saturating_add(1), cur.saturating_sub(1), unit / 100, unit, cur / 2];
                    t[idx(*knob, t.len())]
                };
                let mut msg = vamm::ExecuteMsg::UpdateConfig {
                    base_asset_holding_cap: None,
                    open_interest_notional_cap: None,
                    toll_ratio: None,
                    spread_ratio: None,
                    fluctuation_limit_ratio: None,
                    margin_engine: None,
                    insurance_fund: None,
                    pricefeed: None,
                    spot_price_twap_interval: None,
                };
                if let vamm::ExecuteMsg::UpdateConfig {
                    base_asset_holding_cap,
                    open_interest_notional_cap,
                    toll_ratio,
                    spread_ratio,
                    fluctuation_limit_ratio,
                    spot_price_twap_interval,
                    ..
                } = &mut msg
                {
                    // a second, independently chosen ratio for updates that carry several fields
                    let r2 = ratio_tab[idx(knob.wrapping_mul(31).wrapping_add(7), ratio_tab.len())];
                    let r3 = ratio_tab[idx(knob.wrapping_mul(131).wrapping_add(3), ratio_tab.len())];
                    match field % 10 {
                        6 => {
                            *toll_ratio = Some(u(r));
                            *spread_ratio = Some(u(r2));
                        }
                        7 => {
                            *spread_ratio = Some(u(r));
                            *fluctuation_limit_ratio = Some(u(r2));
                        }
                        8 => {
                            *toll_ratio = Some(u(r));
                            *spread_ratio = Some(u(r2));
                            *fluctuation_limit_ratio = Some(u(r3));
                        }
                        9 => {
                            *toll_ratio = Some(u(r2));
                            *fluctuation_limit_ratio = Some(u(r));
                        }
                        0 => *toll_ratio = Some(u(r)),
                        1 => *spread_ratio = Some(u(r)),
                        2 => *fluctuation_limit_ratio = Some(u(r)),
                        3 => *open_interest_notional_cap = Some(u(cap_tab(q, oi))),
                        4 => {
                            let my = pre.pos[v].iter().filter_map(|p| p.as_ref().map(|p| p.size.value.u128())).max().unwrap_or(0);
                            *base_asset_holding_cap = Some(u(cap_tab(b, my)))
                        }
                        _ => {
                            let t: [u64; 14] = [3600, 60, 59, 604800, 604801, 900, 0, 86400, 300, 120, 600, 4_294_970_896, u64::MAX, 1 << 40];
                            *spot_price_twap_interval = Some(t[idx(*knob, t.len())])
                        }
                    }
                }
                Act::VammAdmin {
                    v,
                    sender: self.w.vamm_admin(v).to_string(),
                    msg,
                }
            }
            Op::SetPause { pause } => Act::EngineAdmin {
                sender: self.w.pauser.clone(),
                msg: eng::ExecuteMsg::SetPause { pause: *pause },
             attach: 0 },
            Op::SetOpen { v, open } => Act::VammAdmin {
                v: self.v_of(*v),
                sender: self.w.vamm_admin(self.v_of(*v)).to_string(),
                msg: vamm::ExecuteMsg::SetOpen { open: *open },
            },
            Op::Register { v, add } => {
                let v = self.v_of(*v);
                let addr = self.w.vamms[v].to_string();
                Act::FundAdmin {
                    sender: self.w.owner.clone(),
                    msg: if *add {
                        fund::ExecuteMsg::AddVamm { vamm: addr }
                    } else {
                        fund::ExecuteMsg::RemoveVamm { vamm: addr }
                    },
                }
            }
            Op::Whitelist { t, add } => {
                let a = self.w.traders[(*t as usize) % N_TRADERS].clone();
                Act::EngineAdmin {
                    sender: self.w.pauser.clone(),
                    msg: if *add {
                        eng::ExecuteMsg::AddWhitelist { address: a }
                    } else {
                        eng::ExecuteMsg::RemoveWhitelist { address: a }
                    },
                 attach: 0 }
            }
            Op::RegisterAlien { add } => match &self.w.alien_vamm {
                None => Act::Skip,
                Some(a) => Act::FundAdmin {
                    sender: self.w.owner.clone(),
                    msg: if *add {
                        fund::ExecuteMsg::AddVamm { vamm: a.to_string() }
                    } else {
                        fund::ExecuteMsg::RemoveVamm { vamm: a.to_string() }
                    },
                },
            },
            Op::EdgeClose { v, t, knob } => {
                let v = self.v_of(*v);
                let fl = pre.v[v].cfg.fluctuation_limit_ratio.u128();
                let frac = pre.ecfg.partial_liquidation_ratio.u128();
                if fl == 0 || frac >= d {
                    return Act::Skip;
                }
                let t = pick_holder(pre, v, *t, true);
                let p = match &pre.pos[v][t] {
                    Some(p) if !p.size.is_zero() && t != WHALE => p.clone(),
                    _ => return Act::Skip,
                };
                let long = !p.size.is_negative();
                // closing a long sells base (price falls towards the lower edge); the whale pushes the same way first
                let up = !long;
                let over = |it: &Interp| -> Option<bool> {
                    it.w.query::<bool, _>(&it.w.vamms[v], &vamm::QueryMsg::IsOverFluctuationLimit { direction: p.direction.clone(), base_asset_amount: p.size.value })
                        .ok()
                };
                match over(self) {
                    Some(false) => {}
                    _ => return Act::Skip,
                }
                let x = pre.v[v].state.quote_asset_reserve.u128();
                let flppm = mul_div_floor(fl, 1_000_000, d);
                let (mut lo, mut hi) = (0u128, push_quote_amount(x, up, (flppm * 5 / 2 + 1_000).min(990_000)).max(2));
                let snap = self.w.snapshot();
                for _ in 0..130 {
                    if hi - lo <= 1 {
                        break;
                    }
                    let mid = lo + (hi - lo) / 2;
                    let act = self.whale_trade(pre, v, up, mid);
                    let r = self.exec_act(&act);
                    let ov = if r.ok { over(self) } else { None };
                    self.w.restore(&snap);
                    match ov {
                        Some(false) => lo = mid,
                        _ => hi = mid,
                    }
                }
                if lo == 0 {
                    return Act::Skip;
                }
                let amt = match idx(*knob, 4) {
                    0 | 1 => lo,
                    2 => lo + 1,
                    _ => lo.saturating_sub(1).max(1),
                };
                self.w.follow.push_back(Act::Close { t, v, limit: 0 });
                self.whale_trade(pre, v, up, amt)
            }
            Op::Balance { v, t } => {
                let v = self.v_of(*v);
                let t = (*t as usize) % N_TRADERS;
                let net = S::from_integer(pre.v[v].state.total_position_size);
                if net.is_zero() {
                    return Act::Skip;
                }
                // the net is long: sell; short: buy. Leverage 1, margin = quote notional.
                let buy = net.is_neg();
                let target = match net.mag_u128() {
                    Some(m) => m,
                    None => return Act::Skip,
                };
                let dir = if buy { Direction::AddToAmm } else { Direction::RemoveFromAmm };
                // quote needed to move exactly `target` base (the vAMM's own quote), then bisection around it
                let q0 = match self.output_amount(v, if buy { Direction::RemoveFromAmm } else { Direction::AddToAmm }, target) {
                    Some(q) if q > 0 => q,
                    _ => return Act::Skip,
                };
                let _ = dir;
                let mk = |q: u128, it: &Interp| Act::Open { t, v, buy, margin: q, lev: d, limit: 0, attach: if it.w.cfg.native { it.expected_pull(pre, t, v, buy, q, d) } else { 0 }, directed: true };
                let snap = self.w.snapshot();
                let (mut lo, mut hi) = (q0.saturating_sub(q0 / 1000 + 4).max(1), q0 + q0 / 1000 + 4);
                let mut best: Option<u128> = None;
                for _ in 0..40 {
                    if lo > hi {
                        break;
                    }
                    let mid = lo + (hi - lo) / 2;
                    let act = mk(mid, self);
                    let r = self.exec_act(&act);
                    let after = if r.ok { Some(S::from_integer(self.w.vamm_state(v).total_position_size)) } else { None };
                    self.w.restore(&snap);
                    match after {
                        Some(a) if a.is_zero() => {
                            best = Some(mid);
                            break;
                        }
                        // still on the original side: trade more
                        Some(a) if a.is_neg() == net.is_neg() => lo = mid + 1,
                        Some(_) => {
                            if mid == 0 {
                                break;
                            }
                            hi = mid - 1
                        }
                        None => break,
                    }
                }
                match best {
                    Some(q) => mk(q, self),
                    None => Act::Skip,
                }
            }
            Op::Intruder { v, who, kind, knob } => {
                let v = self.v_of(*v);
                let senders = [self.w.owner.clone(), self.w.stranger.clone(), self.w.traders[0].clone(), self.w.traders[WHALE].clone(), self.w.pauser.clone(), self.w.liquidator.clone()];
                let sender = senders[(*who as usize) % senders.len()].clone();
                let q = pre.v[v].state.quote_asset_reserve.u128();
                let b = pre.v[v].state.base_asset_reserve.u128();
                let div = [1000u128, 100, 10, 1_000_000][idx(*knob, 4)];
                let msg = match kind % 5 {
                    0 => vamm::ExecuteMsg::SwapInput { direction: Direction::AddToAmm, quote_asset_amount: u(q / div + 1), base_asset_limit: u(0), can_go_over_fluctuation: true },
                    1 => vamm::ExecuteMsg::SwapInput { direction: Direction::RemoveFromAmm, quote_asset_amount: u(q / div + 1), base_asset_limit: u(0), can_go_over_fluctuation: false },
                    2 => vamm::ExecuteMsg::SwapOutput { direction: Direction::AddToAmm, base_asset_amount: u(b / div + 1), quote_asset_limit: u(0) },
                    3 => vamm::ExecuteMsg::SwapOutput { direction: Direction::RemoveFromAmm, base_asset_amount: u(b / div + 1), quote_asset_limit: u(0) },
                    _ => vamm::ExecuteMsg::SettleFunding {},
                };
                Act::VammAdmin { v, sender, msg }
            }
            Op::Rewire { v, what } => {
                let v = self.v_of(*v);
                let cfg = self.w.vamm_config(v);
                let (mut me, mut fu) = (None, None);
                if what % 2 == 0 {
                    // away from the deployment's fund: to an outside address or to the foreign registry that also lists this vAMM
                    let away = if what % 4 == 0 { crate::world::RETIRED_FUND.to_string() } else { self.w.fund2.to_string() };
                    fu = Some(if cfg.insurance_fund == self.w.fund { away } else { self.w.fund.to_string() });
                } else {
                    me = Some(if cfg.margin_engine == self.w.engine { crate::world::ENGINE_TYPO.to_string() } else { self.w.engine.to_string() });
                }
                Act::VammAdmin {
                    v,
                    sender: self.w.vamm_admin(v).to_string(),
                    msg: vamm::ExecuteMsg::UpdateConfig {
                        base_asset_holding_cap: None,
                        open_interest_notional_cap: None,
                        toll_ratio: None,
                        spread_ratio: None,
                        fluctuation_limit_ratio: None,
                        margin_engine: me,
                        insurance_fund: fu,
                        pricefeed: None,
                        spot_price_twap_interval: None,
                    },
                }
            }
            Op::Alias { kind, v, amt } => {
                let v = self.v_of(*v);
                let alias = format!("{}0", self.w.vamms[v]);
                let victim = self.w.traders[crate::world::ALIAS_VICTIM].clone();
                let a = u(d / 100 + jitter(*amt, d));
                // kinds 0-5: alice names the address "<vamm>0" (aliases 0alice's key if keys are plain concatenations);
                // kinds 6-10: an account spelled like alice but in another letter case acts on alice's market, or is named in a Liquidate
                let upper = self.w.traders[crate::world::ALIAS_ATTACKER].to_uppercase();
                let real = self.w.vamms[v].to_string();
                let attacker_pos_long = pre.pos[v][crate::world::ALIAS_ATTACKER].as_ref().map(|p| !p.size.is_negative()).unwrap_or(true);
                if kind % 12 == 11 {
                    // the aliased trader first trades its own position (almost) exactly flat with an order just below the position's
                    // value - which can leave a zero-size record that still holds margin -, tops that record up, and only then
                    // the other account names the aliasing address in a WithdrawMargin
                    let vt = crate::world::ALIAS_VICTIM;
                    if let Some(p) = &pre.pos[v][vt] {
                        if !p.size.is_zero() {
                            if let Some(pn) = self.output_amount(v, p.direction.clone(), p.size.value.u128()) {
                                let long = !p.size.is_negative();
                                let q = pn.saturating_sub(1 + (*amt as u128 % 3)).max(1);
                                let attach = if self.w.cfg.native { self.expected_pull(pre, vt, v, !long, q, d) } else { 0 };
                                let dep = d / 10 + jitter(*amt, d);
                                self.w.follow.push_back(Act::Deposit { t: vt, v, amount: dep, attach: dep });
                                self.w.follow.push_back(Act::EngineAdmin {
                                    sender: self.w.traders[crate::world::ALIAS_ATTACKER].clone(),
                                    msg: eng::ExecuteMsg::WithdrawMargin { vamm: alias, amount: u(dep / 2 + 1) },
                                    attach: 0,
                                });
                                return Act::Open { t: vt, v, buy: !long, margin: q, lev: d, limit: 0, attach, directed: true };
                            }
                        }
                    }
                    return Act::Skip;
                }
                let (sender, msg) = match kind % 11 {
                    0 => (None, eng::ExecuteMsg::DepositMargin { vamm: alias, amount: a }),
                    1 => (None, eng::ExecuteMsg::WithdrawMargin { vamm: alias, amount: a }),
                    2 => (None, eng::ExecuteMsg::ClosePosition { vamm: alias, quote_asset_limit: u(0) }),
                    3 => (None, eng::ExecuteMsg::OpenPosition { vamm: alias, side: Side::Sell, margin_amount: a, leverage: u(d), base_asset_limit: u(0) }),
                    4 => (None, eng::ExecuteMsg::Liquidate { vamm: alias, trader: self.w.traders[crate::world::ALIAS_ATTACKER].clone(), quote_asset_limit: u(0) }),
                    5 => (None, eng::ExecuteMsg::Liquidate { vamm: self.w.vamms[v].to_string(), trader: victim, quote_asset_limit: u(0) }),
                    6 => (Some(upper.clone()), eng::ExecuteMsg::ClosePosition { vamm: real, quote_asset_limit: u(0) }),
                    7 => (Some(upper.clone()), eng::ExecuteMsg::WithdrawMargin { vamm: real, amount: u(1 + jitter(*amt, 1000)) }),
                    8 => (
                        Some(upper.clone()),
                        eng::ExecuteMsg::OpenPosition { vamm: real, side: if attacker_pos_long { Side::Sell } else { Side::Buy }, margin_amount: u(d / 1000 + 1), leverage: u(d), base_asset_limit: u(0) },
                    ),
                    9 => (Some(upper.clone()), eng::ExecuteMsg::DepositMargin { vamm: real, amount: u(1) }),
                    _ => (Some(self.w.liquidator.clone()), eng::ExecuteMsg::Liquidate { vamm: real, trader: upper.clone(), quote_asset_limit: u(0) }),
                };
                // in a native deployment the other-case account holds coins of its own and attaches what its order / deposit needs
                let attach = if self.w.cfg.native {
                    match &msg {
                        eng::ExecuteMsg::OpenPosition { margin_amount, .. } if sender.is_some() => {
                            let m = margin_amount.u128();
                            let vc = &pre.v[v].cfg;
                            m + crate::refmath::fee(m, vc.toll_ratio.u128(), d) + crate::refmath::fee(m, vc.spread_ratio.u128(), d)
                        }
                        eng::ExecuteMsg::DepositMargin { amount, .. } if sender.is_some() => amount.u128(),
                        _ => 0,
                    }
                } else {
                    0
                };
                Act::EngineAdmin {
                    sender: sender.unwrap_or_else(|| self.w.traders[crate::world::ALIAS_ATTACKER].clone()),
                    msg,
                    attach,
                }
            }
            Op::Drain { v, t, knob } => {
                // the oracle is moved so that the next settlement charges a holder about c x its margin (c from 1/2 to 5: the margin
                // is half consumed, exactly consumed, consumed one unit over, several times over), the settlement follows at the
                // funding time, and in three cases out of four the owner then trades on / withdraws from / closes the drained position (up to three operations)
                let v = self.v_of(*v);
                let t = pick_holder(pre, v, *t, true);
                let p = match &pre.pos[v][t] {
                    Some(p) if !p.size.is_zero() => p.clone(),
                    _ => return Act::Skip,
                };
                let long = !p.size.is_negative();
                let size = p.size.value.u128();
                let margin = p.margin.u128().max(1);
                let period = pre.v[v].cfg.funding_period.max(1) as u128;
                let c = [500u128, 1000, 1001, 2000, 5000, 999, 1500][idx(*knob, 7)];
                let f_target = mul_div_floor(margin, c, 1000);
                // premium fraction needed: F * D / size; price gap = fraction * 86400 / period
                let frac = mul_div_floor(f_target, d, size.max(1));
                let gap = mul_div_floor(frac, 86400, period).max(1);
                let spot = pre.v[v].spot;
                let price = if long { spot.saturating_sub(gap).max(1) } else { spot.saturating_add(gap) };
                let nf = pre.v[v].state.next_funding_time;
                let dt = if nf > pre.time { nf - pre.time } else { 1 };
                self.w.follow.push_back(Act::NextBlock { dt });
                self.w.follow.push_back(Act::PayFunding { who: self.w.liquidator.clone(), v, attach: 0 });
                let n_now = self.output_amount(v, p.direction.clone(), size).unwrap_or(0);
                let mk_open = |it: &Interp, buy: bool, q: u128| Act::Open { t, v, buy, margin: q.max(1), lev: d, limit: 0, attach: if it.w.cfg.native { it.expected_pull(pre, t, v, buy, q.max(1), d) } else { 0 }, directed: true };
                let k = *knob % 8;
                if k == 1 || k == 5 || k == 7 {
                    let a = mk_open(self, long, d / 100 + 1);
                    self.w.follow.push_back(a)
                }
                if k == 2 || k == 5 || k == 6 {
                    let a = mk_open(self, !long, n_now / 4 + 1);
                    self.w.follow.push_back(a)
                }
                if k == 3 {
                    self.w.follow.push_back(Act::Withdraw { t, v, amount: 1 })
                }
                if k >= 5 {
                    self.w.follow.push_back(Act::Close { t, v, limit: 0 })
                }
                Act::SetOracle { v, price }
            }
            Op::LagSqueeze { v, target, knob } => {
                // a whale trade sized (bisection on a what-if copy) so that the target's margin ratio *at the spot price* lands at /
                // just below maintenance, then a block 1 to 15 minutes later, then a liquidation attempt: spot and 15-minute TWAP
                // disagree about the position for as long as the move is younger than the window
                let v = self.v_of(*v);
                let target = pick_holder(pre, v, *target, true);
                let p = match &pre.pos[v][target] {
                    Some(p) if !p.size.is_zero() && target != WHALE => p.clone(),
                    _ => return Act::Skip,
                };
                let pr0 = match crate::oracle::pos_ref(&self.w, pre, v, target) {
                    Some(x) => x,
                    None => return Act::Skip,
                };
                let long = !p.size.is_negative();
                let up = !long;
                let maint = S::pos(pre.ecfg.maintenance_margin_ratio.u128());
                let offs: [i128; 5] = [0, -1, -20, -100, 1];
                let goal = maint.add(&S::from_i128(offs[idx(*knob, offs.len())] * (d as i128) / 1000));
                let x = pre.v[v].state.quote_asset_reserve.u128();
                let (mut lo, mut hi) = (0u128, if up { 5_000_000u128 } else { 980_000u128 });
                let snap = self.w.snapshot();
                for _ in 0..14 {
                    let mid = (lo + hi) / 2;
                    let act = self.whale_trade(pre, v, up, push_quote_amount(x, up, mid));
                    let r = self.exec_act(&act);
                    let ratio = if r.ok {
                        self.output_amount(v, p.direction.clone(), p.size.value.u128()).filter(|n| *n > 0).map(|n| {
                            let pnl = crate::refmath::pnl(long, n, pr0.notional);
                            crate::refmath::ratio(pr0.equity(&pnl), n, d)
                        })
                    } else {
                        None
                    };
                    self.w.restore(&snap);
                    match ratio {
                        Some(rt) if rt.gt(&goal) => lo = mid,
                        _ => hi = mid,
                    }
                }
                if hi == 0 {
                    return Act::Skip;
                }
                let dts: [u64; 10] = [60, 120, 300, 450, 600, 840, 899, 900, 901, 15];
                let dt = dts[(*knob as usize) % dts.len()];
                if *knob % 16 == 7 {
                    // busy market: about a hundred blocks a few seconds apart, each with a dust trade, fill the time between the move
                    // and the attempt (the 15-minute window then holds far more snapshots than a quiet market's)
                    let n = 96 + (*knob as usize / 16) % 24;
                    for k in 0..n {
                        self.w.follow.push_back(Act::NextBlock { dt: 3 + (k as u64 % 5) });
                        let dust = self.whale_trade(pre, v, up, 1 + (k as u128 % 3));
                        self.w.follow.push_back(dust);
                    }
                    self.w.follow.push_back(Act::NextBlock { dt: 4 });
                } else {
                    self.w.follow.push_back(Act::NextBlock { dt });
                }
                self.w.follow.push_back(Act::Liquidate { who: self.w.liquidator.clone(), v, target, limit: 0, attach: 0 });
                self.whale_trade(pre, v, up, push_quote_amount(x, up, hi))
            }
            Op::MatchPrepaid { v, t, knob } => {
                // the engine's prepaid-bad-debt counter is brought to exactly the bad debt the weakest position's liquidation would
                // realise (or one unit beside it): the liquidation is tried on a what-if copy and announces its bad debt B; another
                // trader then withdraws margin of vault balance + (B - counter), so that the insurance fund advances exactly the
                // difference; the liquidation follows as the next step
                let v = self.v_of(*v);
                let mut best: Option<(S, usize)> = None;
                for tt in 0..N_TRADERS {
                    if pre.pos[v][tt].as_ref().map(|p| !p.size.is_zero()).unwrap_or(false) {
                        if let Some(r) = self.margin_ratio(v, tt) {
                            if best.as_ref().map(|b| r.lt(&b.0)).unwrap_or(true) {
                                best = Some((r, tt));
                            }
                        }
                    }
                }
                let target = match best {
                    Some((_, tt)) => tt,
                    None => return Act::Skip,
                };
                let liq = Act::Liquidate { who: self.w.liquidator.clone(), v, target, limit: 0, attach: 0 };
                let snap = self.w.snapshot();
                let r = self.exec_act(&liq);
                self.w.restore(&snap);
                if !r.ok {
                    return Act::Skip;
                }
                let b: u128 = r
                    .events
                    .iter()
                    .flat_map(|e| e.attributes.iter())
                    .filter(|a| a.key == "bad_debt")
                    .filter_map(|a| a.value.parse::<u128>().ok())
                    .max()
                    .unwrap_or(0);
                let p0 = pre.estate.bad_debt.u128();
                if b == 0 || b < p0 {
                    return Act::Skip;
                }
                if b == p0 {
                    return liq;
                }
                let w_need = match idx(*knob, 4) {
                    0 | 1 => b - p0,
                    2 => b - p0 + 1,
                    _ => (b - p0).saturating_sub(1).max(1),
                };
                let vault = pre.bal[self.w.idx_engine()];
                let amount = vault.saturating_add(w_need);
                // a trader other than the target whose free collateral covers the amount
                let start = (*t as usize) % N_TRADERS;
                for k in 0..N_TRADERS {
                    let tt = (start + k) % N_TRADERS;
                    if tt == target || pre.pos[v][tt].is_none() {
                        continue;
                    }
                    let fc = self
                        .w
                        .query::<Integer, _>(&self.w.engine, &eng::QueryMsg::FreeCollateral { vamm: self.w.vamms[v].to_string(), trader: self.w.traders[tt].clone() })
                        .ok()
                        .map(S::from_integer);
                    if let Some(fc) = fc {
                        if !fc.is_neg() && fc.mag_u128().map(|m| m >= amount).unwrap_or(false) {
                            self.w.follow.push_back(liq);
                            return Act::Withdraw { t: tt, v, amount };
                        }
                    }
                }
                Act::Skip
            }
            Op::PausedLiq { v, who } => {
                // the pauser halts trading, somebody liquidates the weakest position meanwhile, trading resumes - all in one block
                let v = self.v_of(*v);
                let mut best: Option<(S, usize)> = None;
                for tt in 0..N_TRADERS {
                    if pre.pos[v][tt].as_ref().map(|p| !p.size.is_zero()).unwrap_or(false) {
                        if let Some(r) = self.margin_ratio(v, tt) {
                            if best.as_ref().map(|b| r.lt(&b.0)).unwrap_or(true) {
                                best = Some((r, tt));
                            }
                        }
                    }
                }
                let target = match best {
                    Some((_, tt)) => tt,
                    None => return Act::Skip,
                };
                self.w.follow.push_back(Act::Liquidate { who: WHO[(*who as usize) % WHO.len()].to_string(), v, target, limit: 0, attach: 0 });
                self.w.follow.push_back(Act::EngineAdmin { sender: self.w.pauser.clone(), msg: eng::ExecuteMsg::SetPause { pause: false }, attach: 0 });
                Act::EngineAdmin { sender: self.w.pauser.clone(), msg: eng::ExecuteMsg::SetPause { pause: true }, attach: 0 }
            }
            Op::Allowance { t, grant } => Act::Allowance { t: (*t as usize) % N_TRADERS, grant: *grant },
            Op::Handover { to } => {
                // the pauser role is handed to a trading account (or back to the deployment's pauser account)
                let mut cands: Vec<String> = self.w.traders.clone();
                cands.push("pauser".to_string());
                cands.push("pauser".to_string());
                let to = cands[(*to as usize) % cands.len()].clone();
                Act::EngineAdmin {
                    sender: self.w.pauser.clone(),
                    msg: eng::ExecuteMsg::UpdatePauser { pauser: to },
                 attach: 0 }
            }
            Op::Burst { v, who, n } => {
                // a run of funding periods, each settled once: n x (a block one funding period later, PayFunding); the
                // engine's per-market list of cumulative fractions and the vAMM's snapshot list grow by one entry each
                let v = self.v_of(*v);
                let period = pre.v[v].cfg.funding_period.max(1);
                let n = 6 + (*n as usize % 5) * 7;
                let whos = WHO[(*who as usize) % WHO.len()].to_string();
                for k in 0..n {
                    if k > 0 {
                        self.w.follow.push_back(Act::NextBlock { dt: period });
                    }
                    self.w.follow.push_back(Act::PayFunding { who: whos.clone(), v, attach: 0 });
                }
                Act::NextBlock { dt: period }
            }
            Op::Shutdown => Act::FundAdmin {
                sender: self.w.owner.clone(),
                msg: fund::ExecuteMsg::ShutdownVamms {},
            },
        }
    }

    pub fn sender_of(&self, act: &Act) -> String {
        match act {
            Act::Open { t, .. } | Act::Close { t, .. } | Act::Deposit { t, .. } | Act::Withdraw { t, .. } => self.w.traders[*t].clone(),
            Act::Liquidate { who, .. } | Act::PayFunding { who, .. } => who.clone(),
            Act::SetOracle { .. } => self.w.owner.clone(),
            Act::EngineAdmin { sender, .. } | Act::VammAdmin { sender, .. } | Act::FundAdmin { sender, .. } => sender.clone(),
            Act::Allowance { t, .. } => self.w.traders[*t].clone(),
            Act::NextBlock { .. } | Act::Skip => String::new(),
        }
    }

    pub fn engine_msg(&self, act: &Act) -> Option<(eng::ExecuteMsg, u128)> {
        let vaddr = |v: usize| self.w.vamms[v].to_string();
        Some(match act {
            Act::Open { v, buy, margin, lev, limit, attach, .. } => (
                eng::ExecuteMsg::OpenPosition {
                    vamm: vaddr(*v),
                    side: if *buy { Side::Buy } else { Side::Sell },
                    margin_amount: u(*margin),
                    leverage: u(*lev),
                    base_asset_limit: u(*limit),
                },
                *attach,
            ),
            Act::Close { v, t, limit } => (
                eng::ExecuteMsg::ClosePosition {
                    vamm: vaddr(*v),
                    quote_asset_limit: u(*limit),
                },
                // a native deployment's close comes with the closing fees attached (what a cw20 deployment would pull)
                self.native_close_fees(*v, *t),
            ),
            Act::Deposit { v, amount, attach, .. } => (
                eng::ExecuteMsg::DepositMargin {
                    vamm: vaddr(*v),
                    amount: u(*amount),
                },
                *attach,
            ),
            Act::Withdraw { v, amount, .. } => (
                eng::ExecuteMsg::WithdrawMargin {
                    vamm: vaddr(*v),
                    amount: u(*amount),
                },
                0,
            ),
            Act::Liquidate { v, target, limit, attach, .. } => (
                eng::ExecuteMsg::Liquidate {
                    vamm: vaddr(*v),
                    trader: self.w.traders[*target].clone(),
                    quote_asset_limit: u(*limit),
                },
                *attach,
            ),
            Act::PayFunding { v, attach, .. } => (eng::ExecuteMsg::PayFunding { vamm: vaddr(*v) }, *attach),
            Act::EngineAdmin { msg, attach, .. } => (msg.clone(), *attach),
            _ => return None,
        })
    }

    /// toll + spread a ClosePosition by trader `t` would be charged in the current state (native deployments: the amount to
    /// attach): on the position's open notional for a whole close, on the quoted value of the closed part when the per-block
    /// band turns the close partial
    pub fn native_close_fees(&self, v: usize, t: usize) -> u128 {
        if !self.w.cfg.native {
            return 0;
        }
        let d = self.w.d;
        let p = match self.w.position(v, &self.w.traders[t]) {
            Some(p) if !p.size.is_zero() => p,
            _ => return 0,
        };
        let vc = self.w.vamm_config(v);
        let ec = self.w.engine_config();
        let frac = ec.partial_liquidation_ratio.u128();
        let over = self
            .w
            .query::<bool, _>(&self.w.vamms[v], &vamm::QueryMsg::IsOverFluctuationLimit { direction: p.direction.clone(), base_asset_amount: p.size.value })
            .unwrap_or(false);
        let base = if over && frac < d {
            let part = mul_div_floor(p.size.value.u128(), frac, d);
            self.output_amount(v, p.direction.clone(), part).unwrap_or(0)
        } else {
            p.notional.u128()
        };
        crate::refmath::fee(base, vc.toll_ratio.u128(), d) + crate::refmath::fee(base, vc.spread_ratio.u128(), d)
    }

    pub fn exec_act_fault(&mut self, act: &Act, fault_at: Option<usize>) -> TxRes {
        let sender = self.sender_of(act);
        if let Some((msg, attach)) = self.engine_msg(act) {
            let funds = self.w.funds(attach);
            let engine = self.w.engine.clone();
            let r = self.w.exec(&sender, &engine, &msg, &funds, fault_at);
            if r.ok {
                if let eng::ExecuteMsg::SetPause { pause } = msg {
                    self.w.paused = pause;
                } else if let eng::ExecuteMsg::UpdatePauser { pauser } = &msg {
                    self.w.pauser = pauser.clone();
                } else if let eng::ExecuteMsg::UpdateConfig { fee_pool: Some(p), .. } = &msg {
                    self.w.fee_pool = Addr::unchecked(p);
                }
            }
            return r;
        }
        match act {
            Act::SetOracle { v, price } => {
                let now = self.w.now();
                self.w.set_oracle_price(*v, *price, now)
            }
            Act::VammAdmin { v, sender, msg } => {
                let a: Addr = self.w.vamms[*v].clone();
                self.w.exec(sender, &a, msg, &[], fault_at)
            }
            Act::FundAdmin { sender, msg } => {
                let a = self.w.fund.clone();
                self.w.exec(sender, &a, msg, &[], fault_at)
            }
            Act::Allowance { t, grant } => match self.w.token.clone() {
                None => ok_res(),
                Some(token) => {
                    let sender = self.w.traders[*t].clone();
                    let spender = self.w.engine.to_string();
                    // withdrawing takes the whole allowance away (the token drops the record), granting sets up a large one again
                    let msg = if *grant {
                        cw20::Cw20ExecuteMsg::IncreaseAllowance { spender, amount: u(u128::MAX / 4), expires: None }
                    } else {
                        cw20::Cw20ExecuteMsg::DecreaseAllowance { spender, amount: u(u128::MAX), expires: None }
                    };
                    self.w.exec(&sender, &token, &msg, &[], fault_at)
                }
            },
            Act::NextBlock { dt } => {
                self.w.next_block(*dt, 1);
                ok_res()
            }
            _ => ok_res(),
        }
    }

    pub fn exec_act(&mut self, act: &Act) -> TxRes {
        self.exec_act_fault(act, None)
    }
}

pub fn ok_res() -> TxRes {
    TxRes {
        ok: true,
        err: String::new(),
        panicked: false,
        n_msgs: 0,
        fault_hit: false,
        xfers: vec![],
        msgs: vec![],
        events: vec![],
    }
}

pub fn act_json(act: &Act) -> Value {
    match act {
        Act::Open { t, v, buy, margin, lev, limit, attach, directed } => {
            json!({"open": {"t": t, "v": v, "buy": buy, "margin": margin.to_string(), "lev": lev.to_string(), "limit": limit.to_string(), "attach": attach.to_string(), "directed": directed}})
        }
        Act::Close { t, v, limit } => json!({"close": {"t": t, "v": v, "limit": limit.to_string()}}),
        Act::Deposit { t, v, amount, attach } => json!({"deposit": {"t": t, "v": v, "amount": amount.to_string(), "attach": attach.to_string()}}),
        Act::Withdraw { t, v, amount } => json!({"withdraw": {"t": t, "v": v, "amount": amount.to_string()}}),
        Act::Liquidate { who, v, target, limit, attach } => json!({"liquidate": {"who": who, "v": v, "target": target, "limit": limit.to_string(), "attach": attach.to_string()}}),
        Act::PayFunding { who, v, attach } => json!({"pay_funding": {"who": who, "v": v, "attach": attach.to_string()}}),
        Act::NextBlock { dt } => json!({"next_block": dt}),
        Act::SetOracle { v, price } => json!({"set_oracle": {"v": v, "price": price.to_string()}}),
        Act::EngineAdmin { sender, msg, attach } => json!({"engine_admin": {"sender": sender, "msg": format!("{:?}", msg), "attach": attach.to_string()}}),
        Act::VammAdmin { v, sender, msg } => json!({"vamm_admin": {"v": v, "sender": sender, "msg": format!("{:?}", msg)}}),
        Act::FundAdmin { sender, msg } => json!({"fund_admin": {"sender": sender, "msg": format!("{:?}", msg)}}),
        Act::Allowance { t, grant } => json!({"allowance": {"t": t, "grant": grant}}),
        Act::Skip => json!("skip"),
    }
}

/// Runs one generated history under a monitor. Fills `out` (counters, violation, summary).
pub fn run_history(case: &HistCase, mon: &mut dyn Monitor, ctx: &Ctx, out: &mut Outcome) {
    let w = match World::build(&case.cfg) {
        Ok(w) => w,
        Err(e) => {
            // a deployment the contracts refuse is not a case (counted; generator bug if frequent)
            out.count("world_rejected");
            if ctx.want_summary {
                out.summary = Some(json!({"world_rejected": e}));
            }
            return;
        }
    };
    let mut it = Interp { w };
    mon.begin(&mut it.w, out);
    let mut trace: Vec<Value> = vec![];
    let mut pre = observe(&it.w);
    it.w.fmodel.start(&pre);
    let created = it.w.created_at;
    it.w.rmodel.start(&pre, created.0, created.1);
    let mut ops_iter = case.ops.iter().enumerate();
    let mut cur_i = 0usize;
    loop {
        // a directed op may have queued the action that has to follow it immediately
        let act = match it.w.follow.pop_front() {
            Some(a) => {
                out.count("op.follow_up");
                a
            }
            None => match ops_iter.next() {
                Some((i, op)) => {
                    cur_i = i;
                    it.resolve(op, &pre)
                }
                None => break,
            },
        };
        let i = cur_i;
        if let Act::Skip = act {
            out.count("op.skip");
            continue;
        }
        if let Some(v) = mon.before(&mut it, &act, &pre, out) {
            if let Some(v) = ctx.filter(out, v.at(i)) {
                out.violation = Some(v);
                break;
            }
        }
        let sender = it.sender_of(&act);
        if let Act::PayFunding { v, .. } = &act {
            let mut fm = std::mem::take(&mut it.w.fmodel);
            fm.expect_settlement(&it.w, &pre, *v);
            it.w.fmodel = fm;
        }
        let res = it.exec_act(&act);
        let post = observe(&it.w);
        it.w.fmodel.step(&act, &pre, &post, res.ok);
        it.w.rmodel.step(&pre, &post);
        let effect = match act.subject() {
            Some((v, t)) => classify(&act, &pre.pos[v][t], &post.pos[v][t], res.ok),
            None => Effect::None,
        };
        out.count(&format!("op.{}.{}", act.name(), if res.ok { "ok" } else { "err" }));
        if it.w.cfg.native && matches!(act, Act::Open { .. } | Act::Close { .. } | Act::Deposit { .. }) {
            out.count(&format!("native.{}.{}", act.name(), if res.ok { "ok" } else { "err" }));
        }
        if !res.ok && std::env::var("PVERIF_ERRSTATS").is_ok() {
            let e: String = res.err.chars().filter(|c| !c.is_ascii_digit()).map(|c| if c == ' ' { '_' } else { c }).take(70).collect();
            out.count(&format!("err.{}.{}", act.name(), e));
        }
        if effect == Effect::Odd && std::env::var("PVERIF_ERRSTATS").is_ok() {
            if let Some((v, t)) = act.subject() {
                eprintln!("ODD {} pre={:?} post={:?}", act.name(), pre.pos[v][t].as_ref().map(|p| (p.size.to_string(), p.margin, p.notional)), post.pos[v][t].as_ref().map(|p| (p.size.to_string(), p.margin, p.notional)));
            }
        }
        if effect != Effect::None {
            out.count(&format!("effect.{:?}", effect));
        }
        if ctx.want_summary {
            let subj = act.subject().map(|(v, t)| {
                let f = |p: &Option<Position>| p.as_ref().map(|p| format!("size {} margin {} notional {} L {} blk {}", p.size, p.margin, p.notional, p.last_updated_premium_fraction, p.block_number));
                json!({"before": f(&pre.pos[v][t]), "after": f(&post.pos[v][t])})
            });
            trace.push(json!({"i": i, "act": act_json(&act), "ok": res.ok, "err": res.err, "effect": format!("{:?}", effect), "position": subj}));
        }
        let step = Step {
            i,
            act: &act,
            pre: &pre,
            post: &post,
            res: &res,
            effect,
            sender: &sender,
        };
        let viol = mon.after(&it.w, &step, out);
        if let Some(v) = viol {
            let truncate = v.sig.get("truncate").map(|s| s == "1").unwrap_or(false);
            match ctx.filter(out, v.at(i)) {
                Some(v) => {
                    out.violation = Some(v);
                    break;
                }
                None => {
                    if truncate {
                        out.count("truncated_after_known_finding");
                        break;
                    }
                }
            }
        }
        pre = post;
    }
    mon.end(&it.w, out);
    if ctx.want_summary {
        let mut s = json!({"trace": trace});
        if let Some(prev) = out.summary.take() {
            s["monitor"] = prev;
        }
        out.summary = Some(s);
    }
}
