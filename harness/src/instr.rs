//! Instrumented wrappers around cw-multi-test contracts and the bank module.
//!
//! They (a) log every collateral movement that is actually dispatched, (b) number every message a
//! contract of the deployment dispatches (the "message tree" of a transaction) and (c) can fail the
//! message with a given number instead of executing it (fault injection for C08).
//! All state is thread-local: every worker thread owns its own worlds.
use anyhow::{anyhow, Result as AnyResult};
use cosmwasm_std::{
    from_slice, Addr, Api, BankMsg, BankQuery, Binary, BlockInfo, CustomQuery, Deps, DepsMut,
    Empty, Env, MessageInfo, Querier, Reply, Response, Storage,
};
use cw20::Cw20ExecuteMsg;
use cw_multi_test::{AppResponse, Bank, BankKeeper, BankSudo, Contract, CosmosRouter, Module};
use schemars::JsonSchema;
use serde::de::DeserializeOwned;
use serde::Serialize;
use std::cell::{Cell, RefCell};
use std::collections::BTreeSet;

#[derive(Clone, Debug, PartialEq, Eq, Serialize)]
pub struct Xfer {
    pub from: String,
    pub to: String,
    pub amount: u128,
    /// "transfer" | "transfer_from" | "mint" | "burn" | "bank"
    pub kind: &'static str,
    /// account / contract that sent the message
    pub by: String,
}

#[derive(Clone, Debug, Serialize)]
pub struct MsgRec {
    pub idx: usize,
    pub target: &'static str,
    pub sender: String,
    pub what: String,
}

thread_local! {
    static COUNTER: Cell<usize> = Cell::new(0);
    static FAULT_AT: Cell<Option<usize>> = Cell::new(None);
    static FAULT_HIT: Cell<bool> = Cell::new(false);
    static XFERS: RefCell<Vec<Xfer>> = RefCell::new(vec![]);
    static MSGS: RefCell<Vec<MsgRec>> = RefCell::new(vec![]);
    static CONTRACTS: RefCell<BTreeSet<String>> = RefCell::new(BTreeSet::new());
    static NATIVE_DENOM: RefCell<String> = RefCell::new(String::new());
}

pub fn set_contract_set(addrs: &[String], native_denom: &str) {
    CONTRACTS.with(|c| {
        let mut c = c.borrow_mut();
        c.clear();
        for a in addrs {
            c.insert(a.clone());
        }
    });
    NATIVE_DENOM.with(|d| *d.borrow_mut() = native_denom.to_string());
}

/// Reset per-transaction instrumentation; `fault_at` = index (1-based) of the dispatched message to fail.
pub fn begin_tx(fault_at: Option<usize>) {
    COUNTER.with(|c| c.set(0));
    FAULT_AT.with(|f| f.set(fault_at));
    FAULT_HIT.with(|f| f.set(false));
    XFERS.with(|l| l.borrow_mut().clear());
    MSGS.with(|l| l.borrow_mut().clear());
}

pub struct TxInstr {
    pub n_msgs: usize,
    pub fault_hit: bool,
    pub xfers: Vec<Xfer>,
    pub msgs: Vec<MsgRec>,
}

pub fn end_tx() -> TxInstr {
    FAULT_AT.with(|f| f.set(None));
    TxInstr {
        n_msgs: COUNTER.with(|c| c.get()),
        fault_hit: FAULT_HIT.with(|f| f.get()),
        xfers: XFERS.with(|l| std::mem::take(&mut *l.borrow_mut())),
        msgs: MSGS.with(|l| std::mem::take(&mut *l.borrow_mut())),
    }
}

fn is_contract(a: &str) -> bool {
    CONTRACTS.with(|c| c.borrow().contains(a))
}

/// Returns Err if this dispatched message is the armed fault.
fn count_and_maybe_fault(target: &'static str, sender: &Addr, what: String) -> AnyResult<()> {
    if !is_contract(sender.as_str()) {
        return Ok(());
    }
    let idx = COUNTER.with(|c| {
        c.set(c.get() + 1);
        c.get()
    });
    MSGS.with(|l| {
        l.borrow_mut().push(MsgRec {
            idx,
            target,
            sender: sender.to_string(),
            what,
        })
    });
    if FAULT_AT.with(|f| f.get()) == Some(idx) {
        FAULT_HIT.with(|f| f.set(true));
        return Err(anyhow!("injected fault at message {}", idx));
    }
    Ok(())
}

#[derive(Clone, Copy, PartialEq, Eq, Debug)]
pub enum Role {
    Cw20,
    Vamm,
    Fund,
    FeePool,
    Engine,
    Oracle,
}

impl Role {
    fn name(self) -> &'static str {
        match self {
            Role::Cw20 => "cw20",
            Role::Vamm => "vamm",
            Role::Fund => "fund",
            Role::FeePool => "fee_pool",
            Role::Engine => "engine",
            Role::Oracle => "oracle",
        }
    }
}

pub struct Instr {
    pub role: Role,
    pub inner: Box<dyn Contract<Empty>>,
}

pub fn wrap(role: Role, inner: Box<dyn Contract<Empty>>) -> Box<dyn Contract<Empty>> {
    Box::new(Instr { role, inner })
}

fn brief(msg: &[u8]) -> String {
    let s = String::from_utf8_lossy(msg);
    s.chars().take(160).collect()
}

impl Contract<Empty> for Instr {
    fn execute(
        &self,
        deps: DepsMut,
        env: Env,
        info: MessageInfo,
        msg: Vec<u8>,
    ) -> AnyResult<Response> {
        count_and_maybe_fault(self.role.name(), &info.sender, brief(&msg))?;
        let mut pending: Option<Xfer> = None;
        if self.role == Role::Cw20 {
            if let Ok(m) = from_slice::<Cw20ExecuteMsg>(&msg) {
                let by = info.sender.to_string();
                pending = match m {
                    Cw20ExecuteMsg::Transfer { recipient, amount } => Some(Xfer {
                        from: by.clone(),
                        to: recipient,
                        amount: amount.u128(),
                        kind: "transfer",
                        by,
                    }),
                    Cw20ExecuteMsg::TransferFrom {
                        owner,
                        recipient,
                        amount,
                    } => Some(Xfer {
                        from: owner,
                        to: recipient,
                        amount: amount.u128(),
                        kind: "transfer_from",
                        by,
                    }),
                    Cw20ExecuteMsg::Mint { recipient, amount } => Some(Xfer {
                        from: String::new(),
                        to: recipient,
                        amount: amount.u128(),
                        kind: "mint",
                        by,
                    }),
                    Cw20ExecuteMsg::Burn { amount } => Some(Xfer {
                        from: by.clone(),
                        to: String::new(),
                        amount: amount.u128(),
                        kind: "burn",
                        by,
                    }),
                    _ => None,
                };
            }
        }
        let r = self.inner.execute(deps, env, info, msg);
        if r.is_ok() {
            if let Some(x) = pending {
                XFERS.with(|l| l.borrow_mut().push(x));
            }
        }
        r
    }
    fn instantiate(
        &self,
        deps: DepsMut,
        env: Env,
        info: MessageInfo,
        msg: Vec<u8>,
    ) -> AnyResult<Response> {
        self.inner.instantiate(deps, env, info, msg)
    }
    fn query(&self, deps: Deps, env: Env, msg: Vec<u8>) -> AnyResult<Binary> {
        self.inner.query(deps, env, msg)
    }
    fn sudo(&self, deps: DepsMut, env: Env, msg: Vec<u8>) -> AnyResult<Response> {
        self.inner.sudo(deps, env, msg)
    }
    fn reply(&self, deps: DepsMut, env: Env, msg: Reply) -> AnyResult<Response> {
        self.inner.reply(deps, env, msg)
    }
    fn migrate(&self, deps: DepsMut, env: Env, msg: Vec<u8>) -> AnyResult<Response> {
        self.inner.migrate(deps, env, msg)
    }
}

/// Bank module wrapper: logs sends of the collateral denom, numbers/faults sends issued by contracts.
pub struct InstrBank {
    pub inner: BankKeeper,
}

impl InstrBank {
    pub fn new() -> Self {
        InstrBank {
            inner: BankKeeper::new(),
        }
    }
}

impl Bank for InstrBank {}

impl Module for InstrBank {
    type ExecT = BankMsg;
    type QueryT = BankQuery;
    type SudoT = BankSudo;

    fn execute<ExecC, QueryC>(
        &self,
        api: &dyn Api,
        storage: &mut dyn Storage,
        router: &dyn CosmosRouter<ExecC = ExecC, QueryC = QueryC>,
        block: &BlockInfo,
        sender: Addr,
        msg: BankMsg,
    ) -> AnyResult<AppResponse>
    where
        ExecC: std::fmt::Debug + Clone + PartialEq + JsonSchema + DeserializeOwned + 'static,
        QueryC: CustomQuery + DeserializeOwned + 'static,
    {
        count_and_maybe_fault("bank", &sender, format!("{:?}", msg))?;
        let mut pending: Vec<Xfer> = vec![];
        if let BankMsg::Send { to_address, amount } = &msg {
            let denom = NATIVE_DENOM.with(|d| d.borrow().clone());
            for c in amount {
                if c.denom == denom {
                    pending.push(Xfer {
                        from: sender.to_string(),
                        to: to_address.clone(),
                        amount: c.amount.u128(),
                        kind: "bank",
                        by: sender.to_string(),
                    });
                }
            }
        }
        let r = self.inner.execute(api, storage, router, block, sender, msg);
        if r.is_ok() {
            XFERS.with(|l| l.borrow_mut().extend(pending));
        }
        r
    }

    fn sudo<ExecC, QueryC>(
        &self,
        api: &dyn Api,
        storage: &mut dyn Storage,
        router: &dyn CosmosRouter<ExecC = ExecC, QueryC = QueryC>,
        block: &BlockInfo,
        msg: BankSudo,
    ) -> AnyResult<AppResponse>
    where
        ExecC: std::fmt::Debug + Clone + PartialEq + JsonSchema + DeserializeOwned + 'static,
        QueryC: CustomQuery + DeserializeOwned + 'static,
    {
        self.inner.sudo(api, storage, router, block, msg)
    }

    fn query(
        &self,
        api: &dyn Api,
        storage: &dyn Storage,
        querier: &dyn Querier,
        block: &BlockInfo,
        request: BankQuery,
    ) -> AnyResult<Binary> {
        self.inner.query(api, storage, querier, block, request)
    }
}
