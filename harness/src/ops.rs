//! Operation and configuration generators (proptest strategies) for engine-level histories.
//! Ops carry small knobs that the interpreter (hist.rs) maps monotonically onto state-relative values.
use crate::world::{VammCfg, WorldCfg};
use proptest::prelude::*;
use proptest::strategy::BoxedStrategy;
use serde::{Deserialize, Serialize};

#[derive(Clone, Debug, Serialize, Deserialize, PartialEq, Eq, Hash)]
pub enum Op {
    Open { t: u8, v: u8, buy: bool, margin: u16, lev: u16, limit: u8 },
    Close { t: u8, v: u8, limit: u8 },
    Deposit { t: u8, v: u8, amt: u16 },
    Withdraw { t: u8, v: u8, amt: u16 },
    Liquidate { who: u8, v: u8, target: u8, limit: u8 },
    LiquidateWeakest { who: u8, v: u8 },
    PayFunding { who: u8, v: u8 },
    NextBlock { dt: u8 },
    SetOracle { v: u8, knob: u16 },
    /// whale trade sized from the current reserves to move spot by a generated percentage
    PushPrice { v: u8, up: bool, strength: u16 },
    /// whale trade sized (by bisection on a what-if copy) so that `target`'s margin ratio lands near maintenance
    Squeeze { v: u8, target: u8, knob: u16 },
    EngineCfg { field: u8, knob: u16, knob2: u16 },
    VammCfg { v: u8, field: u8, knob: u16 },
    SetPause { pause: bool },
    SetOpen { v: u8, open: bool },
    Register { v: u8, add: bool },
    Whitelist { t: u8, add: bool },
    Shutdown,
    /// AddVamm / RemoveVamm of the deployment's extra vAMM whose decimals differ from the engine's
    RegisterAlien { add: bool },
    /// engine message by trader 0 naming the address "<vamm>0" (not a contract): with trader "0alice" holding a
    /// position this aliases its storage key if keys are concatenated without separator
    Alias { kind: u8, v: u8, amt: u16 },
    /// the vAMM owner re-points the vAMM's insurance-fund (what even) or margin-engine (what odd) setting to an outside address, or back
    Rewire { v: u8, what: u8 },
    /// whale order sized (by bisection on a what-if copy) to be the largest one the vAMM's per-block band still accepts, or one unit beside it
    PushEdge { v: u8, up: bool, knob: u16 },
    /// an account that is not the margin engine (owner, stranger, a trader, the insurance fund's owner ...) sends a swap or a
    /// funding settlement straight to the vAMM
    Intruder { v: u8, who: u8, kind: u8, knob: u16 },
    /// whale order sized (by bisection on the vAMM's own band query, on a what-if copy) so that closing a holder's whole position
    /// afterwards lands the price on the edge of the per-block band; the holder's ClosePosition follows as the next step
    EdgeClose { v: u8, t: u8, knob: u16 },
    /// a trader takes the other side of the market's whole net position (order sized by bisection on a what-if copy), so that
    /// the vAMM's net position becomes exactly zero while positions stay open
    Balance { v: u8, t: u8 },
    /// a run of 6-34 funding periods, each settled once (next block one period later, PayFunding)
    Burst { v: u8, who: u8, n: u8 },
    /// the oracle is moved so that the next funding settlement consumes about c x a holder's margin; the settlement follows at
    /// the funding time and (three times out of four) an owner operation on the drained position after it
    Drain { v: u8, t: u8, knob: u16 },
    /// the engine's pauser role is handed to a trading account, or back
    Handover { to: u8 },
    /// whale trade that puts a holder at / just below maintenance *at the spot price*, a block 1-15 minutes later, a liquidation attempt
    LagSqueeze { v: u8, target: u8, knob: u16 },
    /// a withdrawal sized so that the insurance fund advances exactly what the weakest position's liquidation will realise as
    /// bad debt beyond the engine's prepaid counter; the liquidation follows
    MatchPrepaid { v: u8, t: u8, knob: u16 },
    /// SetPause{true}, a liquidation of the weakest position, SetPause{false}: one block
    PausedLiq { v: u8, who: u8 },
    /// a trader withdraws / grants again the cw20 allowance of the engine (cw20 deployments only)
    Allowance { t: u8, grant: bool },
}

#[derive(Clone, Debug, Serialize, Deserialize, PartialEq, Eq, Hash)]
pub struct HistCase {
    pub cfg: WorldCfg,
    pub ops: Vec<Op>,
}

/// relative weights of op kinds
#[derive(Clone, Debug)]
pub struct Weights {
    pub open: u32,
    pub close: u32,
    pub deposit: u32,
    pub withdraw: u32,
    pub liquidate: u32,
    pub liq_weakest: u32,
    pub funding: u32,
    pub block: u32,
    pub oracle: u32,
    pub push: u32,
    pub squeeze: u32,
    pub ecfg: u32,
    pub vcfg: u32,
    pub pause: u32,
    pub setopen: u32,
    pub register: u32,
    pub whitelist: u32,
    pub shutdown: u32,
    pub alien: u32,
    pub alias: u32,
    pub rewire: u32,
    pub edge: u32,
    pub intruder: u32,
    pub edge_close: u32,
    pub balance: u32,
    pub burst: u32,
    pub drain: u32,
    pub handover: u32,
    pub lag: u32,
    pub match_prepaid: u32,
    pub paused_liq: u32,
    pub allowance: u32,
}

impl Weights {
    pub fn trading() -> Weights {
        Weights {
            open: 30,
            close: 12,
            deposit: 5,
            withdraw: 7,
            liquidate: 4,
            liq_weakest: 10,
            funding: 8,
            block: 12,
            oracle: 5,
            push: 8,
            squeeze: 8,
            ecfg: 0,
            vcfg: 0,
            pause: 0,
            setopen: 0,
            register: 0,
            whitelist: 0,
            shutdown: 0,
            alien: 0,
            alias: 0,
            rewire: 0,
            edge: 0,
            intruder: 0,
            edge_close: 0,
            balance: 0,
            burst: 0,
            drain: 0,
            handover: 0,
            lag: 0,
            match_prepaid: 0,
            paused_liq: 0,
            allowance: 0,
        }
    }
}

#[derive(Clone, Debug)]
pub struct CfgProfile {
    /// None = generate both flavours
    pub native: Option<bool>,
    pub max_vamms: usize,
    pub fees: bool,
    pub fluct: bool,
    /// every vAMM gets a non-zero fluctuation limit
    pub fluct_always: bool,
    pub caps: bool,
    pub partial: bool,
    /// None = generate both oracle flavours (1 in 4 uses the repository's own price feed)
    pub real_feed: Option<bool>,
    pub small_fund: bool,
    /// allow closed / unregistered vAMMs in the initial deployment
    pub odd_vamms: bool,
    /// force 6 decimals (twin deployments)
    pub six_decimals: bool,
    pub alien: bool,
    /// traders 1 and 2 get long addresses sharing all but the last byte
    pub long_names: bool,
    /// one deployment in three hands its vAMMs to the insurance fund
    pub fund_owned: bool,
    /// caps on one vAMM in four only (for checks whose histories must stay liquid)
    pub caps_light: bool,
}

impl CfgProfile {
    pub fn general() -> CfgProfile {
        CfgProfile {
            native: None,
            max_vamms: 2,
            fees: true,
            fluct: true,
            fluct_always: false,
            caps: false,
            partial: true,
            real_feed: Some(false),
            small_fund: true,
            odd_vamms: false,
            six_decimals: false,
            alien: false,
            long_names: false,
            fund_owned: false,
            caps_light: false,
        }
    }
}

fn sel<T: Clone + std::fmt::Debug + 'static>(v: Vec<T>) -> BoxedStrategy<T> {
    proptest::sample::select(v).boxed()
}

pub fn vamm_cfg_strategy(d: u128, p: &CfgProfile) -> BoxedStrategy<VammCfg> {
    // (price numerator, denominator): 0.001 .. 10^4
    let prices: Vec<(u128, u128)> = vec![(10, 1), (1, 1), (1375, 10), (2000, 1), (1, 2), (14, 1000), (10000, 1), (1, 1000)];
    let depths: Vec<u128> = vec![1_000, 100_000, 10, 10_000_000];
    let fee_tab: Vec<u128> = if p.fees {
        vec![0, 0, d / 1000, d / 100, 1, d / 10, d / 5]
    } else {
        vec![0]
    };
    let fluct_tab: Vec<u128> = if p.fluct_always {
        vec![d / 20, d / 100, d / 8, d * 3 / 10, d / 50, d / 1000, d, d * 9 / 16]
    } else if p.fluct {
        vec![0, 0, 0, 0, 0, d / 20, d / 100, d / 8, d * 3 / 10, d]
    } else {
        vec![0]
    };
    let cap_tab: Vec<u128> = if p.caps_light {
        vec![0, 0, 0, 0, 0, 0, 0, 0, 0, 1, 2, 3]
    } else if p.caps {
        vec![0, 1, 2, 3]
    } else {
        vec![0]
    };
    let odd = p.odd_vamms;
    (
        (sel(prices), sel(depths), any::<u32>(), any::<u32>()),
        (sel(fee_tab.clone()), sel(fee_tab), sel(fluct_tab)),
        sel(vec![86400u64, 3600, 86400, 3600, 5400, 1800, 9000, 43200, 1_209_600]),
        (sel(cap_tab.clone()), sel(cap_tab)),
        sel(vec![100u128, 100, 101, 95, 105, 109, 91, 111, 89, 120, 80, 150, 50]),
        (0u8..10, 0u8..10),
    )
        .prop_map(move |((price, depth, fx, fy), (toll, spread, fluct), funding_period, (oc, hc), orc, (o1, o2))| {
            let (pn, pd) = price;
            // quote depth in whole units; base = depth / price must be at least one unit
            let mut q_units = depth;
            let mut b_units = q_units * pd / pn;
            if b_units == 0 {
                b_units = 1;
                q_units = pn / pd;
            }
            let frac = |f: u32| if f % 4 == 0 { 0 } else { (f as u128) % d };
            let quote_reserve = q_units * d + frac(fx);
            let base_reserve = b_units * d + frac(fy);
            let spot = crate::world::mul_div_floor(quote_reserve, d, base_reserve);
            let cap = |c: u128, unit: u128| match c {
                0 => 0,
                1 => unit / 100,
                2 => unit / 10,
                _ => unit,
            };
            VammCfg {
                quote_reserve,
                base_reserve,
                toll,
                spread,
                fluct,
                funding_period,
                open: !(odd && o1 == 0),
                registered: !(odd && o2 == 0),
                oi_cap: cap(oc, quote_reserve),
                hold_cap: cap(hc, base_reserve),
                oracle_price: (spot * orc / 100).max(1),
            }
        })
        .boxed()
}

pub fn world_cfg_strategy(p: &CfgProfile) -> BoxedStrategy<WorldCfg> {
    let p = p.clone();
    let native_s: BoxedStrategy<bool> = match p.native {
        Some(b) => Just(b).boxed(),
        None => prop_oneof![2 => Just(false), 1 => Just(true)].boxed(),
    };
    let six = p.six_decimals;
    (native_s, sel(vec![9u8, 6, 9, 6, 8, 10, 12]))
        .prop_flat_map(move |(native, dec)| {
            let decimals = if native || six { 6 } else { dec };
            let d = 10u128.pow(decimals as u32);
            let nv = 1..=p.max_vamms.max(1);
            let partial_tab: Vec<u128> = if p.partial {
                vec![0, 0, d / 4, d / 2, d / 3, d * 95 / 100, d]
            } else {
                vec![0]
            };
            let fund_tab: Vec<u128> = if p.small_fund {
                vec![1_000_000_000 * d, 1_000_000_000 * d, 1_000_000_000 * d, 100 * d, d, 0]
            } else {
                vec![1_000_000_000 * d]
            };
            (
                proptest::collection::vec(vamm_cfg_strategy(d, &p), nv),
                sel(vec![d / 20, d / 10, 0, d / 100, d / 16, d / 5, d / 2, d * 6 / 10]),
                sel(vec![0u128, 0, d / 100, d / 20, d / 10, d / 2]),
                sel(vec![d / 20, d / 40, 0, 1, d / 10, d / 2, d]),
                sel(partial_tab),
                sel(fund_tab),
                prop_oneof![3 => Just(false), 1 => Just(true)],
                prop_oneof![2 => Just(false), 1 => Just(true)],
                match p.real_feed {
                    Some(b) => Just(b).boxed(),
                    None => prop_oneof![3 => Just(false), 1 => Just(true)].boxed(),
                },
            )
                .prop_map(move |(mut vamms, maint, extra, liq_fee, partial_ratio, fund_balance, wl, wl2, real_feed)| {
                    // the registry holds at most three vAMMs: a fourth one starts unregistered
                    for (i, v) in vamms.iter_mut().enumerate() {
                        if i >= 3 {
                            v.registered = false;
                        }
                    }
                    WorldCfg {
                    native,
                    decimals,
                    real_feed,
                    vamms,
                    init_ratio: (maint + extra).min(d),
                    maint_ratio: maint,
                    liq_fee,
                    partial_ratio,
                    fund_balance,
                    trader_balance: 1_000_000_000 * d,
                    poor_balance: 3 * d,
                    whitelist_whale: wl && p.caps,
                    alien: p.alien,
                    orphan: false,
                    poor_unlimited_allowance: false,
                    long_names: p.long_names,
                    fund_owns_vamms: p.fund_owned && wl2,
                    }
                })
        })
        .boxed()
}

pub fn op_strategy(w: &Weights) -> BoxedStrategy<Op> {
    // One flat tuple of knobs mapped onto an op kind by a cumulative weight table (no `Union`: proptest's unions
    // fork the RNG once per skipped alternative, which starves the pass-through RNG used by the fuzz target).
    let table: Vec<(u32, u8)> = vec![
        (w.open, 0),
        (w.close, 1),
        (w.deposit, 2),
        (w.withdraw, 3),
        (w.liquidate, 4),
        (w.liq_weakest, 5),
        (w.funding, 6),
        (w.block, 7),
        (w.oracle, 8),
        (w.push, 9),
        (w.squeeze, 10),
        (w.ecfg, 11),
        (w.vcfg, 12),
        (w.pause, 13),
        (w.setopen, 14),
        (w.register, 15),
        (w.whitelist, 16),
        (w.shutdown, 17),
        (w.alien, 18),
        (w.alias, 19),
        (w.rewire, 20),
        (w.edge, 21),
        (w.intruder, 22),
        (w.edge_close, 23),
        (w.balance, 24),
        (w.burst, 25),
        (w.drain, 26),
        (w.handover, 27),
        (w.lag, 28),
        (w.match_prepaid, 29),
        (w.paused_liq, 30),
        (w.allowance, 31),
    ]
    .into_iter()
    .filter(|(wt, _)| *wt > 0)
    .collect();
    let total: u32 = table.iter().map(|(wt, _)| *wt).sum();
    (0u32..total.max(1), 0u8..6, 0u8..4, any::<bool>(), any::<u16>(), any::<u16>(), 0u8..16, 0u8..9)
        .prop_map(move |(k, t, v, b, k1, k2, s1, s2)| {
            let mut acc = 0u32;
            let mut kind = table[0].1;
            for (wt, kd) in &table {
                acc += *wt;
                if k < acc {
                    kind = *kd;
                    break;
                }
            }
            match kind {
                0 => Op::Open { t, v, buy: b, margin: k1, lev: k2, limit: s1 % 5 },
                1 => Op::Close { t, v, limit: s1 % 5 },
                2 => Op::Deposit { t, v, amt: k1 },
                3 => Op::Withdraw { t, v, amt: k1 },
                4 => Op::Liquidate { who: s2, v, target: t, limit: s1 % 5 },
                5 => Op::LiquidateWeakest { who: s2, v },
                6 => Op::PayFunding { who: s2, v },
                7 => Op::NextBlock { dt: s1 },
                8 => Op::SetOracle { v, knob: k1 },
                9 => Op::PushPrice { v, up: b, strength: k1 },
                10 => Op::Squeeze { v, target: t, knob: k1 },
                11 => Op::EngineCfg { field: s2, knob: k1, knob2: k2 },
                12 => Op::VammCfg { v, field: s1 % 10, knob: k1 },
                13 => Op::SetPause { pause: b },
                14 => Op::SetOpen { v, open: b },
                15 => Op::Register { v, add: b },
                16 => Op::Whitelist { t, add: b },
                17 => Op::Shutdown,
                18 => Op::RegisterAlien { add: b },
                19 => Op::Alias { kind: s1, v, amt: k1 },
                20 => Op::Rewire { v, what: s1 },
                21 => Op::PushEdge { v, up: b, knob: k1 },
                22 => Op::Intruder { v, who: s2, kind: s1, knob: k1 },
                23 => Op::EdgeClose { v, t, knob: k1 },
                24 => Op::Balance { v, t },
                25 => Op::Burst { v, who: s2, n: s1 },
                26 => Op::Drain { v, t, knob: k1 },
                27 => Op::Handover { to: s2 },
                28 => Op::LagSqueeze { v, target: t, knob: k1 },
                29 => Op::MatchPrepaid { v, t, knob: k1 },
                30 => Op::PausedLiq { v, who: s2 },
                _ => Op::Allowance { t, grant: b },
            }
        })
        .boxed()
}

pub fn hist_strategy(p: &CfgProfile, w: &Weights, min_ops: usize, max_ops: usize) -> BoxedStrategy<HistCase> {
    // a short prelude of opens by distinct traders makes sure positions exist; the rest is free
    let prelude = proptest::collection::vec(
        (any::<bool>(), any::<u16>(), any::<u16>(), 0u8..3).prop_map(|(buy, margin, lev, v)| (buy, margin, lev, v)),
        0..=3,
    );
    (world_cfg_strategy(p), prelude, proptest::collection::vec(op_strategy(w), min_ops..=max_ops))
        .prop_map(|(cfg, pre, mut ops)| {
            let mut all: Vec<Op> = pre
                .into_iter()
                .enumerate()
                .map(|(i, (buy, margin, lev, v))| Op::Open {
                    t: i as u8,
                    v,
                    buy,
                    margin: margin % 32768, // first half of the margin table: pool-relative sizes
                    lev: lev % 28000,       // valid leverages
                    limit: 0,
                })
                .collect();
            all.append(&mut ops);
            HistCase { cfg, ops: all }
        })
        .boxed()
}
