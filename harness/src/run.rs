//! Threaded proptest driver, shrinking, replay files, known-findings filter and evidence writer.
use proptest::strategy::{BoxedStrategy, Strategy, ValueTree};
use proptest::test_runner::{Config, RngAlgorithm, RngSeed, TestCaseError, TestError, TestRunner};
use serde::de::DeserializeOwned;
use serde::{Deserialize, Serialize};
use serde_json::{json, Value};
use std::collections::hash_map::DefaultHasher;
use std::collections::{BTreeMap, BTreeSet};
use std::fmt::Debug;
use std::hash::{Hash, Hasher};
use std::path::{Path, PathBuf};
use std::sync::Mutex;
use std::time::Instant;

pub fn verif_dir() -> String {
    std::env::var("PVERIF_ROOT").unwrap_or_else(|_| "/verif".to_string())
}

#[derive(Clone, Copy, PartialEq, Eq, Debug)]
pub enum Tier {
    Quick,
    Thorough,
}

impl Tier {
    pub fn name(self) -> &'static str {
        match self {
            Tier::Quick => "quick",
            Tier::Thorough => "thorough",
        }
    }
    pub fn pick<T>(self, q: T, t: T) -> T {
        match self {
            Tier::Quick => q,
            Tier::Thorough => t,
        }
    }
}

#[derive(Clone, Debug, Serialize, Deserialize)]
pub struct Violation {
    pub clause: String,
    pub detail: String,
    /// structured signature used to match known findings (never used to decide the verdict)
    pub sig: BTreeMap<String, String>,
    pub step: Option<usize>,
}

impl Violation {
    pub fn new(clause: &str, detail: String) -> Violation {
        let mut sig = BTreeMap::new();
        sig.insert("clause".to_string(), clause.to_string());
        Violation {
            clause: clause.to_string(),
            detail,
            sig,
            step: None,
        }
    }
    pub fn with(mut self, k: &str, v: impl ToString) -> Violation {
        self.sig.insert(k.to_string(), v.to_string());
        self
    }
    pub fn at(mut self, step: usize) -> Violation {
        self.step = Some(step);
        self
    }
}

#[derive(Clone, Debug, Serialize, Deserialize)]
pub struct Finding {
    pub property: String,
    pub key: String,
    /// "known" | "fixed"
    pub status: String,
    /// all of these signature fields must be equal for a violation to be this finding
    #[serde(default)]
    pub r#match: BTreeMap<String, String>,
    /// optional numeric upper bounds on signature fields (field -> max value)
    #[serde(default)]
    pub max: BTreeMap<String, f64>,
    #[serde(default)]
    pub witness: Option<String>,
    pub what: String,
    #[serde(default)]
    pub commit: Option<String>,
    #[serde(default)]
    pub line: Option<String>,
}

#[derive(Clone, Debug, Default, Serialize, Deserialize)]
pub struct FindingsFile {
    pub findings: Vec<Finding>,
}

pub struct Known {
    pub entries: Vec<Finding>,
}

impl Known {
    pub fn load(prop: &str) -> Known {
        let p = Path::new(&verif_dir()).join("known_findings.json");
        let entries = match std::fs::read_to_string(&p) {
            Ok(s) => {
                let f: FindingsFile = serde_json::from_str(&s).expect("known_findings.json must parse");
                f.findings.into_iter().filter(|f| f.property == prop).collect()
            }
            Err(_) => vec![],
        };
        Known { entries }
    }
    /// key of the `known` entry this violation belongs to, if any
    pub fn matches(&self, v: &Violation) -> Option<String> {
        'outer: for f in &self.entries {
            if f.status != "known" {
                continue;
            }
            for (k, val) in &f.r#match {
                if v.sig.get(k) != Some(val) {
                    continue 'outer;
                }
            }
            for (k, mx) in &f.max {
                match v.sig.get(k).and_then(|s| s.parse::<f64>().ok()) {
                    Some(x) if x <= *mx => {}
                    _ => continue 'outer,
                }
            }
            return Some(f.key.clone());
        }
        None
    }
}

/// What one executed case reports back.
#[derive(Default, Debug)]
pub struct Outcome {
    pub nontrivial: bool,
    pub counters: BTreeMap<String, u64>,
    pub violation: Option<Violation>,
    pub known_hits: BTreeMap<String, u64>,
    /// short human-readable summary used for evidence samples
    pub summary: Option<Value>,
    /// a harness-level problem (not a property verdict): reported as inconclusive
    pub harness_error: Option<String>,
}

impl Outcome {
    pub fn count(&mut self, k: &str) {
        *self.counters.entry(k.to_string()).or_default() += 1;
    }
    pub fn add(&mut self, k: &str, n: u64) {
        *self.counters.entry(k.to_string()).or_default() += n;
    }
    pub fn get(&self, k: &str) -> u64 {
        self.counters.get(k).copied().unwrap_or(0)
    }
}

pub struct Ctx<'a> {
    pub known: &'a Known,
    pub tier: Tier,
    /// strict = replay mode: known findings are not tolerated silently but reported as such
    pub want_summary: bool,
}

impl<'a> Ctx<'a> {
    /// Returns the violation back if it is not a listed known finding; records the hit otherwise.
    pub fn filter(&self, out: &mut Outcome, v: Violation) -> Option<Violation> {
        match self.known.matches(&v) {
            Some(key) => {
                *out.known_hits.entry(key).or_default() += 1;
                None
            }
            None => Some(v),
        }
    }
}

pub trait Property: Sync {
    type Case: Clone + Debug + Serialize + DeserializeOwned + Send + 'static;
    fn id(&self) -> &'static str;
    fn level(&self) -> &'static str {
        "exploration"
    }
    fn strategy(&self, tier: Tier) -> BoxedStrategy<Self::Case>;
    fn cases(&self, tier: Tier) -> u32;
    fn run_case(&self, case: &Self::Case, ctx: &Ctx) -> Outcome;
    fn rule(&self) -> String;
    fn assumptions(&self) -> Vec<String>;
    fn max_shrink_iters(&self) -> u32 {
        300
    }
    fn threads(&self) -> usize {
        16
    }
    /// name of a counter that is reported as `evaluations` instead of the number of generated cases
    fn evaluations_counter(&self) -> Option<&'static str> {
        None
    }
}

fn digest<T: Serialize>(c: &T) -> u64 {
    let s = serde_json::to_string(c).unwrap_or_default();
    let mut h = DefaultHasher::new();
    s.hash(&mut h);
    h.finish()
}

pub fn mix(seed: u64, id: &str, thread: u64) -> u64 {
    let mut h = DefaultHasher::new();
    seed.hash(&mut h);
    id.hash(&mut h);
    thread.hash(&mut h);
    h.finish()
}

#[derive(Default)]
struct ThreadAgg {
    evaluations: u64,
    nontrivial: BTreeSet<u64>,
    counters: BTreeMap<String, u64>,
    known_hits: BTreeMap<String, u64>,
    samples: Vec<Value>,
    harness_errors: Vec<String>,
    failed: bool,
}

pub struct ReplayFile {
    pub path: PathBuf,
    pub case: Value,
}

/// A panic inside the harness itself (not inside a contract: those are caught where the contract is called) must not take
/// the process down with exit code 101: it is reported as a harness error (inconclusive, exit 2).
fn run_case_safe<P: Property>(p: &P, case: &P::Case, ctx: &Ctx) -> Outcome {
    match std::panic::catch_unwind(std::panic::AssertUnwindSafe(|| p.run_case(case, ctx))) {
        Ok(o) => o,
        Err(e) => {
            let msg = e.downcast_ref::<String>().cloned().or_else(|| e.downcast_ref::<&str>().map(|s| s.to_string())).unwrap_or_else(|| "panic".into());
            let mut o = Outcome::default();
            o.harness_error = Some(format!("harness panic: {}", msg));
            o
        }
    }
}

fn list_replays(id: &str) -> Vec<PathBuf> {
    let dir = Path::new(&verif_dir()).join("replays").join(id);
    let mut v: Vec<PathBuf> = match std::fs::read_dir(&dir) {
        Ok(rd) => rd
            .filter_map(|e| e.ok())
            .map(|e| e.path())
            .filter(|p| p.extension().map(|e| e == "json").unwrap_or(false))
            // sensitivity measurements switch the regression seeds of seeded changes off, so that only the generators count
            .filter(|p| std::env::var("PVERIF_SKIP_SEEDED").is_err() || !p.file_name().map(|f| f.to_string_lossy().starts_with("seeded-")).unwrap_or(false))
            .collect(),
        Err(_) => vec![],
    };
    v.sort();
    v
}

pub fn seed_from_env() -> u64 {
    std::env::var("VERIF_SEED")
        .ok()
        .and_then(|s| s.trim().parse::<i128>().ok())
        .map(|x| x as u64)
        .unwrap_or(0)
}

fn write_replay<C: Serialize>(id: &str, case: &C, v: &Violation, found_by: &str, seed: u64) -> PathBuf {
    let dir = Path::new(&verif_dir()).join("replays").join("_found");
    let _ = std::fs::create_dir_all(&dir);
    let d = digest(case);
    let path = dir.join(format!("{}-{:016x}.json", id, d));
    let j = json!({
        "property": id,
        "seed": seed,
        "case": case,
        "found_by": found_by,
        "fails_at": v.step,
        "clause": v.clause,
        "detail": v.detail,
        "sig": v.sig,
    });
    let _ = std::fs::write(&path, serde_json::to_string_pretty(&j).unwrap());
    path
}

/// Replays one file (property library bypassed). Returns exit code.
pub fn replay_one<P: Property>(p: &P, path: &Path, verbose: bool) -> i32 {
    let known = Known::load(p.id());
    let ctx = Ctx {
        known: &known,
        tier: Tier::Quick,
        want_summary: true,
    };
    let s = match std::fs::read_to_string(path) {
        Ok(s) => s,
        Err(e) => {
            println!("cannot read {}: {}", path.display(), e);
            return 2;
        }
    };
    let j: Value = match serde_json::from_str(&s) {
        Ok(j) => j,
        Err(e) => {
            println!("cannot parse {}: {}", path.display(), e);
            return 2;
        }
    };
    let case: P::Case = match serde_json::from_value(j.get("case").cloned().unwrap_or(j.clone())) {
        Ok(c) => c,
        Err(e) => {
            println!("replay file {} does not hold a {} case: {}", path.display(), p.id(), e);
            return 2;
        }
    };
    let out = run_case_safe(p, &case, &ctx);
    if verbose {
        println!("counters: {:?}", out.counters);
        if let Some(s) = &out.summary {
            println!("summary: {}", s);
        }
        for (k, n) in &out.known_hits {
            println!("known finding hit: {} x{}", k, n);
        }
    }
    if let Some(e) = &out.harness_error {
        println!("HARNESS-ERROR {}", e);
        return 2;
    }
    match out.violation {
        Some(v) => {
            println!(
                "replay {}: FAILS clause={} step={:?}\n  {}\n  sig={:?}",
                path.display(),
                v.clause,
                v.step,
                v.detail,
                v.sig
            );
            println!("VIOLATION property={} replay={}", p.id(), path.display());
            1
        }
        None => {
            println!("replay {}: holds", path.display());
            0
        }
    }
}

pub fn drive<P: Property>(p: &P, tier: Tier) -> i32 {
    let t0 = Instant::now();
    let seed = seed_from_env();
    let id = p.id();
    let known = Known::load(id);
    let mut violations: Vec<(PathBuf, Violation)> = vec![];
    let mut harness_errors: Vec<String> = vec![];
    let mut total = ThreadAgg::default();
    let mut witness_status: BTreeMap<String, String> = BTreeMap::new();
    // failing cases of earlier runs of this check are stale: every run writes the ones it reports
    if let Ok(rd) = std::fs::read_dir(Path::new(&verif_dir()).join("replays").join("_found")) {
        for e in rd.flatten() {
            if e.file_name().to_string_lossy().starts_with(&format!("{}-", id)) {
                let _ = std::fs::remove_file(e.path());
            }
        }
    }

    // ---- replay tier -------------------------------------------------------------------------
    let mut replayed = 0u64;
    {
        let ctx = Ctx {
            known: &known,
            tier,
            want_summary: false,
        };
        for path in list_replays(id) {
            let s = std::fs::read_to_string(&path).unwrap_or_default();
            let j: Value = match serde_json::from_str(&s) {
                Ok(j) => j,
                Err(e) => {
                    harness_errors.push(format!("replay {} unparsable: {}", path.display(), e));
                    continue;
                }
            };
            let case: P::Case = match serde_json::from_value(j.get("case").cloned().unwrap_or(Value::Null)) {
                Ok(c) => c,
                Err(e) => {
                    harness_errors.push(format!("replay {} not a case: {}", path.display(), e));
                    continue;
                }
            };
            let out = run_case_safe(p, &case, &ctx);
            replayed += 1;
            total.evaluations += 1;
            for (k, n) in &out.counters {
                *total.counters.entry(format!("replay.{}", k)).or_default() += n;
            }
            for (k, n) in &out.known_hits {
                *total.known_hits.entry(k.clone()).or_default() += n;
            }
            // witness bookkeeping for KNOWN-FINDING lines
            for f in &known.entries {
                if f.witness.as_deref().map(|w| path.ends_with(w) || Path::new(&verif_dir()).join(w) == path).unwrap_or(false) {
                    let st = if out.known_hits.contains_key(&f.key) {
                        "witness reproduces"
                    } else if out.violation.is_some() {
                        "witness fails differently"
                    } else {
                        "witness no longer reproduces"
                    };
                    witness_status.insert(f.key.clone(), st.to_string());
                }
            }
            if let Some(e) = out.harness_error {
                harness_errors.push(format!("replay {}: {}", path.display(), e));
            }
            if let Some(v) = out.violation {
                violations.push((path.clone(), v));
            }
        }
    }

    // ---- generated tier ----------------------------------------------------------------------
    let threads = std::env::var("PVERIF_THREADS").ok().and_then(|s| s.parse::<usize>().ok()).unwrap_or_else(|| p.threads()).max(1);
    // PVERIF_CASES_SCALE: exploratory runs (e.g. the seeded-change matrix) may shrink the budget; registered commands never set it
    let scale: f64 = std::env::var("PVERIF_CASES_SCALE").ok().and_then(|s| s.parse().ok()).unwrap_or(1.0);
    let cases_total = ((p.cases(tier) as f64) * scale).max(16.0) as u32;
    let per_thread = (cases_total as usize + threads - 1) / threads;
    let aggs: Mutex<Vec<(usize, ThreadAgg, Option<(P::Case, Violation)>)>> = Mutex::new(vec![]);
    if violations.is_empty() {
        std::thread::scope(|scope| {
            for th in 0..threads {
                let aggs = &aggs;
                let known = &known;
                scope.spawn(move || {
                    let ctx = Ctx {
                        known,
                        tier,
                        want_summary: false,
                    };
                    let mut cfg = Config::default();
                    cfg.cases = per_thread as u32;
                    cfg.failure_persistence = None;
                    cfg.rng_seed = RngSeed::Fixed(mix(seed, id, th as u64));
                    cfg.rng_algorithm = RngAlgorithm::ChaCha;
                    cfg.max_shrink_iters = p.max_shrink_iters();
                    cfg.max_shrink_time = 0;
                    cfg.verbose = 0;
                    cfg.source_file = None;
                    cfg.test_name = None;
                    let mut runner = TestRunner::new(cfg);
                    let strat = p.strategy(tier);
                    let agg = std::cell::RefCell::new(ThreadAgg::default());
                    let result = runner.run(&strat, |case| {
                        let counting = !agg.borrow().failed;
                        let out = run_case_safe(p, &case, &ctx);
                        let mut a = agg.borrow_mut();
                        if counting {
                            a.evaluations += 1;
                            for (k, n) in &out.counters {
                                *a.counters.entry(k.clone()).or_default() += n;
                            }
                            for (k, n) in &out.known_hits {
                                *a.known_hits.entry(k.clone()).or_default() += n;
                            }
                            if out.nontrivial {
                                let dg = digest(&case);
                                if a.nontrivial.insert(dg) && a.samples.len() < 3 {
                                    let ctx2 = Ctx {
                                        known,
                                        tier,
                                        want_summary: true,
                                    };
                                    let o2 = run_case_safe(p, &case, &ctx2);
                                    a.samples.push(json!({"case": case, "summary": o2.summary}));
                                }
                            }
                            if let Some(e) = &out.harness_error {
                                if a.harness_errors.len() < 5 {
                                    a.harness_errors.push(e.clone());
                                }
                            }
                        }
                        if let Some(v) = out.violation {
                            a.failed = true;
                            return Err(TestCaseError::fail(v.clause));
                        }
                        Ok(())
                    });
                    let mut found = None;
                    if let Err(TestError::Fail(_, minimal)) = result {
                        let out = run_case_safe(p, &minimal, &ctx);
                        if let Some(v) = out.violation {
                            found = Some((minimal, v));
                        } else {
                            agg.borrow_mut()
                                .harness_errors
                                .push("shrunk case did not reproduce (flaky oracle?)".into());
                        }
                    } else if let Err(TestError::Abort(r)) = result {
                        agg.borrow_mut().harness_errors.push(format!("proptest abort: {}", r));
                    }
                    aggs.lock().unwrap().push((th, agg.into_inner(), found));
                });
            }
        });
    }
    let mut v = aggs.into_inner().unwrap();
    v.sort_by_key(|x| x.0);
    for (_th, a, found) in v {
        total.evaluations += a.evaluations;
        for (k, n) in a.counters {
            *total.counters.entry(k).or_default() += n;
        }
        for (k, n) in a.known_hits {
            *total.known_hits.entry(k).or_default() += n;
        }
        total.nontrivial.extend(a.nontrivial);
        for s in a.samples {
            if total.samples.len() < 5 {
                total.samples.push(s);
            }
        }
        harness_errors.extend(a.harness_errors);
        if let Some((case, viol)) = found {
            let path = write_replay(id, &case, &viol, "proptest", seed);
            violations.push((path, viol));
        }
    }

    // ---- evidence ----------------------------------------------------------------------------
    let wall = t0.elapsed().as_secs_f64();
    let known_lines: Vec<String> = known
        .entries
        .iter()
        .filter(|f| f.status == "known")
        .map(|f| {
            format!(
                "KNOWN-FINDING: property={} {} [{}; hits this run: {}; {}]",
                id,
                f.what,
                f.key,
                total.known_hits.get(&f.key).copied().unwrap_or(0),
                witness_status.get(&f.key).cloned().unwrap_or_else(|| "no witness replayed".into())
            )
        })
        .collect();
    let evaluations = match p.evaluations_counter() {
        Some(c) => total.counters.get(c).copied().unwrap_or(0) + total.counters.get(&format!("replay.{}", c)).copied().unwrap_or(0),
        None => total.evaluations,
    };
    let ev = json!({
        "property_id": id,
        "tier": tier.name(),
        "seed": seed as i64,
        "level": p.level(),
        "coverage": {
            "evaluations": evaluations,
            "cases_generated": total.evaluations,
            "distinct_nontrivial": total.nontrivial.len(),
            "rule": p.rule(),
            "samples": total.samples,
            "counters": total.counters,
            "replayed_files": replayed,
            "known_finding_hits_excluded": total.known_hits,
            "threads": threads,
            "cases_requested": cases_total,
        },
        "assumptions": p.assumptions(),
        "wall_s": wall,
        "violations": violations.len(),
        "known_findings": known_lines,
        "harness_errors": harness_errors,
    });
    let evdir = Path::new(&verif_dir()).join("evidence");
    let _ = std::fs::create_dir_all(&evdir);
    let _ = std::fs::write(
        evdir.join(format!("{}.json", id)),
        serde_json::to_string_pretty(&ev).unwrap(),
    );

    println!(
        "{} {}: evaluations={} distinct_nontrivial={} replayed={} wall={:.1}s",
        id,
        tier.name(),
        total.evaluations,
        total.nontrivial.len(),
        replayed,
        wall
    );
    let interesting: Vec<String> = total
        .counters
        .iter()
        .filter(|(k, _)| !k.starts_with("replay."))
        .map(|(k, v)| format!("{}={}", k, v))
        .collect();
    println!("  counters: {}", interesting.join(" "));
    for l in &known_lines {
        println!("{}", l);
    }
    if !violations.is_empty() {
        let mut seen: BTreeSet<PathBuf> = BTreeSet::new();
        for (path, v) in &violations {
            if !seen.insert(path.clone()) || seen.len() > 4 {
                continue;
            }
            println!("  clause={} step={:?} {}", v.clause, v.step, v.detail);
            println!("  sig={:?}", v.sig);
            println!("VIOLATION property={} replay={}", id, path.display());
        }
        return 1;
    }
    if !harness_errors.is_empty() {
        for e in harness_errors.iter().take(5) {
            println!("HARNESS-ERROR {}", e);
        }
        return 2;
    }
    if total.nontrivial.len() < 2 {
        println!("HARNESS-ERROR fewer than 2 non-trivial cases were generated; generator needs fixing");
        return 2;
    }
    0
}

/// helper for strategies: monotone index mapping (shrinks toward 0)
pub fn idx(knob: u16, len: usize) -> usize {
    ((knob as usize) * len) >> 16
}

#[allow(dead_code)]
pub fn generate_one<S: Strategy>(s: &S, seed: u64) -> S::Value {
    let mut cfg = Config::default();
    cfg.rng_seed = RngSeed::Fixed(seed);
    cfg.failure_persistence = None;
    let mut r = TestRunner::new(cfg);
    s.new_tree(&mut r).unwrap().current()
}


thread_local! {
    static FUZZ_KNOWN: std::cell::RefCell<Option<(String, Known)>> = std::cell::RefCell::new(None);
}

/// One fuzz iteration: the bytes are the entropy of the property's own generators (proptest's pass-through RNG,
/// made for fuzzers), so libFuzzer mutates exactly the space the proptest tiers sample. Returns the replay path
/// if the generated case violates the property (known findings are tolerated and excluded).
pub fn fuzz_one<P: Property>(p: &P, data: &[u8]) -> Option<String> {
    use proptest::test_runner::TestRng;
    let id = p.id();
    FUZZ_KNOWN.with(|k| {
        let mut k = k.borrow_mut();
        if k.as_ref().map(|(i, _)| i != id).unwrap_or(true) {
            *k = Some((id.to_string(), Known::load(id)));
        }
    });
    let mut cfg = Config::default();
    cfg.failure_persistence = None;
    cfg.source_file = None;
    if data.len() < 8 {
        return None;
    }
    // when the input is exhausted the pass-through RNG yields zeros for ever, on which some samplers spin;
    // append a long pseudo-random tail derived from the input so generation always terminates
    let mut buf = data.to_vec();
    let mut x = {
        let mut h = DefaultHasher::new();
        data.hash(&mut h);
        h.finish() | 1
    };
    let tail_words: usize = std::env::var("PVERIF_FUZZ_TAIL").ok().and_then(|s| s.parse().ok()).unwrap_or(16384);
    for _ in 0..tail_words {
        x ^= x << 13;
        x ^= x >> 7;
        x ^= x << 17;
        buf.extend_from_slice(&x.to_le_bytes());
    }
    let rng = TestRng::from_seed(RngAlgorithm::PassThrough, &buf);
    let mut runner = TestRunner::new_with_rng(cfg, rng);
    let strat = p.strategy(Tier::Quick);
    let case = match strat.new_tree(&mut runner) {
        Ok(t) => t.current(),
        Err(_) => return None,
    };
    FUZZ_KNOWN.with(|k| {
        let k = k.borrow();
        let known = &k.as_ref().unwrap().1;
        let ctx = Ctx {
            known,
            tier: Tier::Quick,
            want_summary: false,
        };
        let out = run_case_safe(p, &case, &ctx);
        out.violation.map(|v| write_replay(id, &case, &v, "libfuzzer", 0).display().to_string())
    })
}
