mod hist;
mod instr;
mod ops;
mod oracle;
mod props;
mod refmath;
mod run;
mod util;
mod vsim;
mod world;

use run::{drive, replay_one, Property, Tier};
use std::path::Path;

fn with_prop(id: &str, f: &mut dyn FnMut(&dyn Runner) -> i32) -> i32 {
    match id {
        "C01" => f(&props::c01::C01),
        "C02" => f(&props::c02::prop()),
        "C03" => f(&props::c03::prop()),
        "C04" => f(&props::c04::prop()),
        "C05" => f(&props::c05::prop()),
        "C06" => f(&props::c06::prop06()),
        "C07" => f(&props::c06::prop07()),
        "C08" => f(&props::c08::prop()),
        "C09" => f(&props::c09::C09),
        "C10" => f(&props::c10::prop()),
        "C11" => f(&props::c11::prop()),
        "C12" => f(&props::c12::prop()),
        "C13" => f(&props::c13::C13),
        "C14" => f(&props::c14::prop()),
        "C15" => f(&props::c15::prop()),
        "C16" => f(&props::c16::prop()),
        "C17" => f(&props::c17::C17),
        "C18" => f(&props::c18::C18),
        "C19" => f(&props::c19::C19),
        "C20" => f(&props::c20::prop()),
        _ => {
            println!("unknown or unclaimed property {}", id);
            2
        }
    }
}

trait Runner {
    fn drive(&self, tier: Tier) -> i32;
    fn replay(&self, path: &Path) -> i32;
}
impl<P: Property> Runner for P {
    fn drive(&self, tier: Tier) -> i32 {
        drive(self, tier)
    }
    fn replay(&self, path: &Path) -> i32 {
        replay_one(self, path, true)
    }
}

fn main() {
    // contract panics are transaction failures; keep them quiet
    std::panic::set_hook(Box::new(|info| {
        if std::env::var("PVERIF_SHOW_PANICS").is_ok() {
            eprintln!("panic: {}", info);
        }
    }));
    let args: Vec<String> = std::env::args().collect();
    let usage = "usage: pverif check <Cnn> [--tier quick|thorough] | pverif replay <Cnn> <file>";
    if args.len() < 3 {
        println!("{}", usage);
        std::process::exit(2);
    }
    let code = match args[1].as_str() {
        "check" => {
            let mut tier = match std::env::var("VERIF_TIER").as_deref() {
                Ok("thorough") => Tier::Thorough,
                _ => Tier::Quick,
            };
            let mut i = 3;
            while i < args.len() {
                if args[i] == "--tier" && i + 1 < args.len() {
                    tier = if args[i + 1] == "thorough" { Tier::Thorough } else { Tier::Quick };
                    i += 1;
                }
                i += 1;
            }
            with_prop(&args[2], &mut |r| r.drive(tier))
        }
        "replay" => {
            if args.len() < 4 {
                println!("{}", usage);
                2
            } else {
                let p = args[3].clone();
                with_prop(&args[2], &mut |r| r.replay(Path::new(&p)))
            }
        }
        _ => {
            println!("{}", usage);
            2
        }
    };
    std::process::exit(code);
}
