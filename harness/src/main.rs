fn main() { println!("pverif"); }
