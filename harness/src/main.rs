use pverif::run::Tier;
use pverif::with_prop;
use std::path::Path;

fn main() {
    // contract panics are transaction failures; keep them quiet
    std::panic::set_hook(Box::new(|info| {
        if std::env::var("PVERIF_SHOW_PANICS").is_ok() {
            eprintln!("panic: {}", info);
        }
    }));
    let args: Vec<String> = std::env::args().collect();
    let usage = "usage: pverif check <Cnn> [--tier quick|thorough] | pverif replay <Cnn> <file>";
    if args.len() < 3 {
        println!("{}", usage);
        std::process::exit(2);
    }
    let code = match args[1].as_str() {
        "check" => {
            let mut tier = match std::env::var("VERIF_TIER").as_deref() {
                Ok("thorough") => Tier::Thorough,
                _ => Tier::Quick,
            };
            let mut i = 3;
            while i < args.len() {
                if args[i] == "--tier" && i + 1 < args.len() {
                    tier = if args[i + 1] == "thorough" { Tier::Thorough } else { Tier::Quick };
                    i += 1;
                }
                i += 1;
            }
            with_prop(&args[2], &mut |r| r.drive(tier))
        }
        "replay" => {
            if args.len() < 4 {
                println!("{}", usage);
                2
            } else {
                let p = args[3].clone();
                with_prop(&args[2], &mut |r| r.replay(Path::new(&p)))
            }
        }
        "fuzzbytes" => {
            // debugging aid: run one fuzz iteration on the bytes of a file
            let data = if args.len() > 3 { std::fs::read(&args[3]).unwrap_or_default() } else { vec![] };
            with_prop(&args[2], &mut |r| {
                match r.fuzz(&data) {
                    Some(p) => {
                        println!("VIOLATION property={} replay={}", args[2], p);
                        1
                    }
                    None => 0,
                }
            })
        }
        _ => {
            println!("{}", usage);
            2
        }
    };
    std::process::exit(code);
}
