//! Deployment builder around cw-multi-test: the system under test.
use crate::instr::{self, wrap, InstrBank, Role, TxInstr};
use cosmwasm_std::testing::mock_env;
use cosmwasm_std::{
    Addr, BlockInfo, Coin, Empty, Event, Order, Timestamp, Uint128,
};
use cw20::{BalanceResponse, Cw20Coin, Cw20ExecuteMsg, Cw20QueryMsg, MinterResponse};
use cw_multi_test::{App, AppBuilder, Contract, ContractWrapper, Executor};
use margined_common::integer::Integer;
use margined_perp::margined_engine as eng;
use margined_perp::margined_fee_pool as fp;
use margined_perp::margined_insurance_fund as fund;
use margined_perp::margined_pricefeed as feed;
use margined_perp::margined_vamm as vamm;
use serde::de::DeserializeOwned;
use serde::{Deserialize, Serialize};
use std::panic::{catch_unwind, AssertUnwindSafe};

pub type PApp = App<InstrBank>;

pub const NATIVE_DENOM: &str = "uwasm";
/// the last trader's name is "0" + the first trader's: together with an address "<vamm>0" it collides with the
/// first trader's position key if keys are built by plain concatenation (adversarial naming, used by alias ops)
/// two 44-byte addresses sharing their first 43 bytes
pub const LONG_NAMES: [&str; 2] = ["margined1qvw5e8k3tz0hd7xkw2l9c4nmy6sfjup3ra0", "margined1qvw5e8k3tz0hd7xkw2l9c4nmy6sfjup3ra1"];
pub const FOREIGN_DENOM: &str = "ufoo";
/// outside addresses a vAMM owner may (mistakenly) point the vAMM's insurance-fund / margin-engine settings at
pub const RETIRED_FUND: &str = "retired-fund";
pub const ENGINE_TYPO: &str = "engine-typo";
pub const TRADERS: [&str; 6] = ["alice", "bob", "carol", "whale", "dave", "0alice"];
pub const N_TRADERS: usize = 6;
pub const ALIAS_ATTACKER: usize = 0;
pub const ALIAS_VICTIM: usize = 5;
pub const POOR: usize = 4;
pub const WHALE: usize = 3;

#[derive(Clone, Debug, Serialize, Deserialize, PartialEq, Eq, Hash)]
pub struct VammCfg {
    #[serde(with = "crate::util::u128s")]
    pub quote_reserve: u128,
    #[serde(with = "crate::util::u128s")]
    pub base_reserve: u128,
    #[serde(with = "crate::util::u128s")]
    pub toll: u128,
    #[serde(with = "crate::util::u128s")]
    pub spread: u128,
    #[serde(with = "crate::util::u128s")]
    pub fluct: u128,
    pub funding_period: u64,
    pub open: bool,
    pub registered: bool,
    #[serde(with = "crate::util::u128s")]
    pub oi_cap: u128,
    #[serde(with = "crate::util::u128s")]
    pub hold_cap: u128,
    /// initial oracle price (raw, D-scaled)
    #[serde(with = "crate::util::u128s")]
    pub oracle_price: u128,
}

#[derive(Clone, Debug, Serialize, Deserialize, PartialEq, Eq, Hash)]
pub struct WorldCfg {
    pub native: bool,
    pub decimals: u8,
    pub real_feed: bool,
    pub vamms: Vec<VammCfg>,
    #[serde(with = "crate::util::u128s")]
    pub init_ratio: u128,
    #[serde(with = "crate::util::u128s")]
    pub maint_ratio: u128,
    #[serde(with = "crate::util::u128s")]
    pub liq_fee: u128,
    #[serde(with = "crate::util::u128s")]
    pub partial_ratio: u128,
    #[serde(with = "crate::util::u128s")]
    pub fund_balance: u128,
    #[serde(with = "crate::util::u128s")]
    pub trader_balance: u128,
    #[serde(with = "crate::util::u128s")]
    pub poor_balance: u128,
    pub whitelist_whale: bool,
    /// also deploy an unregistered vAMM whose decimals differ from the engine's
    #[serde(default)]
    pub alien: bool,
    /// also deploy an opened vAMM that was instantiated without margin engine / insurance fund
    #[serde(default)]
    pub orphan: bool,
    /// give the poor trader an unlimited cw20 allowance too (only its wallet is small)
    #[serde(default)]
    pub poor_unlimited_allowance: bool,
    /// traders 1 and 2 get long addresses that differ only in their last byte (chain addresses are 40-60 bytes with a shared prefix)
    #[serde(default)]
    pub long_names: bool,
    /// the deployment's owner hands every vAMM to the insurance fund (the fund is then their admin, as in the repository's
    /// shutdown fixture): the fund may open / close them whatever insurance fund they name
    #[serde(default)]
    pub fund_owns_vamms: bool,
}

impl WorldCfg {
    pub fn d(&self) -> u128 {
        10u128.pow(self.decimals as u32)
    }
    /// The fixtures' deployment (one vAMM 1000:100, 5%/5%/5%, no fees), parameterised by decimals.
    pub fn fixture(decimals: u8, native: bool) -> WorldCfg {
        let d = 10u128.pow(decimals as u32);
        WorldCfg {
            native,
            decimals,
            real_feed: false,
            vamms: vec![VammCfg {
                quote_reserve: 1000 * d,
                base_reserve: 100 * d,
                toll: 0,
                spread: 0,
                fluct: 0,
                funding_period: 86400,
                open: true,
                registered: true,
                oi_cap: 0,
                hold_cap: 0,
                oracle_price: 10 * d,
            }],
            init_ratio: d / 20,
            maint_ratio: d / 20,
            liq_fee: d / 20,
            partial_ratio: 0,
            fund_balance: 5000 * d,
            trader_balance: 1_000_000 * d,
            poor_balance: 3 * d,
            whitelist_whale: false,
            alien: false,
            orphan: false,
            poor_unlimited_allowance: false,
            long_names: false,
            fund_owns_vamms: false,
        }
    }
}

#[derive(Clone)]
pub struct Snapshot {
    pub kv: Vec<(Vec<u8>, Vec<u8>)>,
    pub block: BlockInfo,
    pub paused: bool,
    pub oracle_model: Vec<u128>,
    pub fee_pool: Addr,
}

#[derive(Clone, Debug)]
pub struct TxRes {
    pub ok: bool,
    pub err: String,
    pub panicked: bool,
    pub n_msgs: usize,
    pub fault_hit: bool,
    pub xfers: Vec<instr::Xfer>,
    pub msgs: Vec<instr::MsgRec>,
    pub events: Vec<Event>,
}

pub struct World {
    pub app: PApp,
    pub cfg: WorldCfg,
    pub d: u128,
    pub owner: String,
    pub pauser: String,
    pub stranger: String,
    pub liquidator: String,
    pub traders: Vec<String>,
    pub token: Option<Addr>,
    pub engine: Addr,
    pub fund: Addr,
    /// the fee pool the engine is currently configured with (tracked from successful UpdateConfig transactions)
    pub fee_pool: Addr,
    /// both deployed fee pools (the second one is only used after the engine owner switches to it)
    pub pools: [Addr; 2],
    pub idx_pool2: usize,
    /// a foreign registry (same code) that lists the deployment's vAMMs; only a vAMM's own setting may point at it
    pub fund2: Addr,
    pub vamms: Vec<Addr>,
    pub oracles: Vec<Addr>,
    pub keys: Vec<String>,
    /// every account whose collateral balance is tracked (users first, then contracts)
    pub accounts: Vec<String>,
    pub vamm_code: u64,
    pub mock_feed_code: u64,
    /// model of the engine's pause flag (set from successful SetPause transactions)
    pub paused: bool,
    /// last price the harness submitted to each vAMM's oracle
    pub oracle_model: Vec<u128>,
    pub engine_code: u64,
    pub fund_code: u64,
    pub alien_vamm: Option<Addr>,
    pub orphan_vamm: Option<Addr>,
    /// history model of funding (advanced by `run_history` only)
    pub fmodel: crate::oracle::FundingModel,
    pub rmodel: crate::oracle::ReserveModel,
    /// block time / height at which the deployment's contracts were instantiated
    pub created_at: (u64, u64),
    /// an already resolved action a directed op wants executed as the very next step of the history
    pub follow: std::collections::VecDeque<crate::hist::Act>,
    /// set by checks whose oracle tolerates coins attached to PayFunding (C03)
    pub stray_funding_coins: bool,
    /// owner of each vAMM (the deployment's owner account, or the insurance fund where the deployment handed the markets to it)
    pub vamm_admins: Vec<String>,
}

fn c_cw20() -> Box<dyn Contract<Empty>> {
    wrap(
        Role::Cw20,
        Box::new(ContractWrapper::new_with_empty(
            cw20_base::contract::execute,
            cw20_base::contract::instantiate,
            cw20_base::contract::query,
        )),
    )
}
fn c_vamm() -> Box<dyn Contract<Empty>> {
    wrap(
        Role::Vamm,
        Box::new(ContractWrapper::new_with_empty(
            margined_vamm::contract::execute,
            margined_vamm::contract::instantiate,
            margined_vamm::contract::query,
        )),
    )
}
fn c_engine() -> Box<dyn Contract<Empty>> {
    wrap(
        Role::Engine,
        Box::new(
            ContractWrapper::new_with_empty(
                margined_engine::contract::execute,
                margined_engine::contract::instantiate,
                margined_engine::contract::query,
            )
            .with_reply(margined_engine::contract::reply),
        ),
    )
}
fn c_fund() -> Box<dyn Contract<Empty>> {
    wrap(
        Role::Fund,
        Box::new(ContractWrapper::new_with_empty(
            margined_insurance_fund::contract::execute,
            margined_insurance_fund::contract::instantiate,
            margined_insurance_fund::contract::query,
        )),
    )
}
fn c_fee_pool() -> Box<dyn Contract<Empty>> {
    wrap(
        Role::FeePool,
        Box::new(ContractWrapper::new_with_empty(
            margined_fee_pool::contract::execute,
            margined_fee_pool::contract::instantiate,
            margined_fee_pool::contract::query,
        )),
    )
}
fn c_mock_feed() -> Box<dyn Contract<Empty>> {
    wrap(
        Role::Oracle,
        Box::new(ContractWrapper::new_with_empty(
            mock_pricefeed::contract::execute,
            mock_pricefeed::contract::instantiate,
            mock_pricefeed::contract::query,
        )),
    )
}
fn c_real_feed() -> Box<dyn Contract<Empty>> {
    wrap(
        Role::Oracle,
        Box::new(ContractWrapper::new_with_empty(
            margined_pricefeed::contract::execute,
            margined_pricefeed::contract::instantiate,
            margined_pricefeed::contract::query,
        )),
    )
}

pub const BASE_KEYS: [&str; 4] = ["ETH", "BTC", "SOL", "ATOM"];

pub fn u(x: u128) -> Uint128 {
    Uint128::new(x)
}

pub fn int_to_i(i: Integer) -> (bool, u128) {
    (i.negative && !i.value.is_zero(), i.value.u128())
}

impl World {
    pub fn build(cfg: &WorldCfg) -> Result<World, String> {
        let owner = "owner".to_string();
        let pauser = "pauser".to_string();
        let stranger = "stranger".to_string();
        let liquidator = "liquidator".to_string();
        let mut traders: Vec<String> = TRADERS.iter().map(|s| s.to_string()).collect();
        if cfg.long_names {
            traders[1] = LONG_NAMES[0].to_string();
            traders[2] = LONG_NAMES[1].to_string();
        }
        let d = cfg.d();
        let users: Vec<String> = traders
            .iter()
            .cloned()
            .chain([liquidator.clone(), stranger.clone(), owner.clone(), pauser.clone()])
            .collect();
        let bal_of = |name: &str| -> u128 {
            if name == TRADERS[POOR] {
                cfg.poor_balance
            } else if name == "stranger" || name == "owner" || name == "pauser" {
                0
            } else {
                cfg.trader_balance
            }
        };
        let native = cfg.native;
        let mut init_native: Vec<(String, u128)> = users.iter().map(|n| (n.clone(), bal_of(n))).collect();
        // an account spelled like the first trader but in capital letters holds native coins of its own (C10's letter-case aliases)
        init_native.push((TRADERS[ALIAS_ATTACKER].to_uppercase(), cfg.trader_balance / 1000));
        let fund_balance = cfg.fund_balance;
        let mut app: PApp = AppBuilder::new()
            .with_bank(InstrBank::new())
            .with_block(mock_env().block)
            .build(|router, _api, storage| {
                if native {
                    for (n, b) in &init_native {
                        if *b > 0 {
                            router
                                .bank
                                .inner
                                .init_balance(storage, &Addr::unchecked(n), vec![Coin::new(*b, NATIVE_DENOM)])
                                .unwrap();
                        }
                    }
                    // the fund's balance is sent after instantiation from this bootstrap account
                    router
                        .bank
                        .inner
                        .init_balance(
                            storage,
                            &Addr::unchecked("genesis"),
                            vec![Coin::new(fund_balance, NATIVE_DENOM), Coin::new(1_000_000_000_000u128, FOREIGN_DENOM)],
                        )
                        .unwrap();
                }
            });
        let o = Addr::unchecked(&owner);
        let cw20_code = app.store_code(c_cw20());
        let vamm_code = app.store_code(c_vamm());
        let engine_code = app.store_code(c_engine());
        let fund_code = app.store_code(c_fund());
        let fee_code = app.store_code(c_fee_pool());
        let mock_feed_code = app.store_code(c_mock_feed());
        let real_feed_code = app.store_code(c_real_feed());
        let e = |x: anyhow::Error| x.root_cause().to_string();

        let token = if native {
            None
        } else {
            let balances: Vec<Cw20Coin> = users
                .iter()
                .filter(|n| bal_of(n) > 0)
                .map(|n| Cw20Coin {
                    address: n.clone(),
                    amount: u(bal_of(n)),
                })
                .collect();
            Some(
                app.instantiate_contract(
                    cw20_code,
                    o.clone(),
                    &cw20_base::msg::InstantiateMsg {
                        name: "USDC".into(),
                        symbol: "USDC".into(),
                        decimals: cfg.decimals,
                        initial_balances: balances,
                        mint: Some(MinterResponse {
                            minter: owner.clone(),
                            cap: None,
                        }),
                        marketing: None,
                    },
                    &[],
                    "cw20",
                    None,
                )
                .map_err(e)?,
            )
        };
        let fee_pool = app
            .instantiate_contract(fee_code, o.clone(), &fp::InstantiateMsg {}, &[], "fee_pool", None)
            .map_err(e)?;
        let collateral = match &token {
            Some(t) => t.to_string(),
            None => NATIVE_DENOM.to_string(),
        };
        let engine = app
            .instantiate_contract(
                engine_code,
                o.clone(),
                &eng::InstantiateMsg {
                    pauser: pauser.clone(),
                    insurance_fund: "insurance_fund".into(),
                    fee_pool: fee_pool.to_string(),
                    eligible_collateral: collateral.clone(),
                    initial_margin_ratio: u(cfg.init_ratio),
                    maintenance_margin_ratio: u(cfg.maint_ratio),
                    liquidation_fee: u(cfg.liq_fee),
                },
                &[],
                "engine",
                None,
            )
            .map_err(e)?;
        let fund_addr = app
            .instantiate_contract(
                fund_code,
                o.clone(),
                &fund::InstantiateMsg {
                    engine: engine.to_string(),
                },
                &[],
                "fund",
                None,
            )
            .map_err(e)?;
        app.execute_contract(
            o.clone(),
            engine.clone(),
            &eng::ExecuteMsg::UpdateConfig {
                owner: None,
                insurance_fund: Some(fund_addr.to_string()),
                fee_pool: None,
                initial_margin_ratio: None,
                maintenance_margin_ratio: None,
                partial_liquidation_ratio: Some(u(cfg.partial_ratio)),
                liquidation_fee: None,
            },
            &[],
        )
        .map_err(e)?;
        // fee pool knows the collateral token
        app.execute_contract(
            o.clone(),
            fee_pool.clone(),
            &fp::ExecuteMsg::AddToken {
                token: collateral.clone(),
            },
            &[],
        )
        .map_err(e)?;
        // fund balance
        if cfg.fund_balance > 0 {
            match &token {
                Some(t) => {
                    app.execute_contract(
                        o.clone(),
                        t.clone(),
                        &Cw20ExecuteMsg::Mint {
                            recipient: fund_addr.to_string(),
                            amount: u(cfg.fund_balance),
                        },
                        &[],
                    )
                    .map_err(e)?;
                }
                None => {
                    app.send_tokens(
                        Addr::unchecked("genesis"),
                        fund_addr.clone(),
                        &[Coin::new(cfg.fund_balance, NATIVE_DENOM)],
                    )
                    .map_err(e)?;
                }
            }
        }
        if token.is_none() {
            // coins of another denomination sit on the protocol's accounts (anyone can send them): they are not collateral
            for (to, amt) in [(&engine, 123_456_789u128), (&fund_addr, 1u128), (&fee_pool, 40_000_000u128)] {
                app.send_tokens(Addr::unchecked("genesis"), to.clone(), &[Coin::new(amt, FOREIGN_DENOM)]).map_err(e)?;
            }
        }
        let mut vamms = vec![];
        let mut oracles = vec![];
        let mut keys = vec![];
        let now = app.block_info().time.seconds();
        for (i, vc) in cfg.vamms.iter().enumerate() {
            let key = BASE_KEYS[i % BASE_KEYS.len()].to_string();
            let oracle = app
                .instantiate_contract(
                    if cfg.real_feed { real_feed_code } else { mock_feed_code },
                    o.clone(),
                    &feed::InstantiateMsg {
                        oracle_hub_contract: "oracle_hub0000".into(),
                    },
                    &[],
                    format!("oracle{}", i),
                    None,
                )
                .map_err(e)?;
            app.execute_contract(
                o.clone(),
                oracle.clone(),
                &feed::ExecuteMsg::AppendPrice {
                    key: key.clone(),
                    price: u(vc.oracle_price),
                    timestamp: now,
                },
                &[],
            )
            .map_err(e)?;
            let v = app
                .instantiate_contract(
                    vamm_code,
                    o.clone(),
                    &vamm::InstantiateMsg {
                        decimals: cfg.decimals,
                        pricefeed: oracle.to_string(),
                        margin_engine: Some(engine.to_string()),
                        insurance_fund: Some(fund_addr.to_string()),
                        quote_asset: "USD".into(),
                        base_asset: key.clone(),
                        quote_asset_reserve: u(vc.quote_reserve),
                        base_asset_reserve: u(vc.base_reserve),
                        funding_period: vc.funding_period,
                        toll_ratio: u(vc.toll),
                        spread_ratio: u(vc.spread),
                        fluctuation_limit_ratio: u(vc.fluct),
                    },
                    &[],
                    format!("vamm{}", i),
                    None,
                )
                .map_err(e)?;
            if vc.oi_cap > 0 || vc.hold_cap > 0 {
                app.execute_contract(
                    o.clone(),
                    v.clone(),
                    &vamm::ExecuteMsg::UpdateConfig {
                        base_asset_holding_cap: Some(u(vc.hold_cap)),
                        open_interest_notional_cap: Some(u(vc.oi_cap)),
                        toll_ratio: None,
                        spread_ratio: None,
                        fluctuation_limit_ratio: None,
                        margin_engine: None,
                        insurance_fund: None,
                        pricefeed: None,
                        spot_price_twap_interval: None,
                    },
                    &[],
                )
                .map_err(e)?;
            }
            if vc.open {
                app.execute_contract(o.clone(), v.clone(), &vamm::ExecuteMsg::SetOpen { open: true }, &[])
                    .map_err(e)?;
            }
            if vc.registered {
                app.execute_contract(
                    o.clone(),
                    fund_addr.clone(),
                    &fund::ExecuteMsg::AddVamm { vamm: v.to_string() },
                    &[],
                )
                .map_err(e)?;
            }
            vamms.push(v);
            oracles.push(oracle);
            keys.push(key);
        }
        let alien_vamm = if cfg.alien {
            let dec = if cfg.decimals == 6 { 7 } else { 6 };
            let da = 10u128.pow(dec as u32);
            let a = app
                .instantiate_contract(
                    vamm_code,
                    o.clone(),
                    &vamm::InstantiateMsg {
                        decimals: dec,
                        pricefeed: oracles[0].to_string(),
                        margin_engine: Some(engine.to_string()),
                        insurance_fund: Some(fund_addr.to_string()),
                        quote_asset: "USD".into(),
                        base_asset: "DOT".into(),
                        quote_asset_reserve: u(1000 * da),
                        base_asset_reserve: u(100 * da),
                        funding_period: 3600,
                        toll_ratio: u(0),
                        spread_ratio: u(0),
                        fluctuation_limit_ratio: u(0),
                    },
                    &[],
                    "alien_vamm",
                    None,
                )
                .map_err(e)?;
            app.execute_contract(o.clone(), a.clone(), &vamm::ExecuteMsg::SetOpen { open: true }, &[]).map_err(e)?;
            Some(a)
        } else {
            None
        };
        let orphan_vamm = if cfg.orphan {
            let a = app
                .instantiate_contract(
                    vamm_code,
                    o.clone(),
                    &vamm::InstantiateMsg {
                        decimals: cfg.decimals,
                        pricefeed: oracles[0].to_string(),
                        margin_engine: None,
                        insurance_fund: None,
                        quote_asset: "USD".into(),
                        base_asset: keys[0].clone(),
                        quote_asset_reserve: u(1000 * d),
                        base_asset_reserve: u(100 * d),
                        funding_period: 3600,
                        toll_ratio: u(0),
                        spread_ratio: u(0),
                        fluctuation_limit_ratio: u(0),
                    },
                    &[],
                    "orphan_vamm",
                    None,
                )
                .map_err(e)?;
            app.execute_contract(o.clone(), a.clone(), &vamm::ExecuteMsg::SetOpen { open: true }, &[]).map_err(e)?;
            Some(a)
        } else {
            None
        };
        // allowances
        if let Some(t) = &token {
            for (i, tr) in traders.iter().enumerate() {
                let amount = if i == POOR && !cfg.poor_unlimited_allowance { cfg.poor_balance * 2 } else { u128::MAX / 4 };
                app.execute_contract(
                    Addr::unchecked(tr),
                    t.clone(),
                    &Cw20ExecuteMsg::IncreaseAllowance {
                        spender: engine.to_string(),
                        amount: u(amount),
                        expires: None,
                    },
                    &[],
                )
                .map_err(e)?;
            }
        }
        if cfg.whitelist_whale {
            app.execute_contract(
                Addr::unchecked(&pauser),
                engine.clone(),
                &eng::ExecuteMsg::AddWhitelist {
                    address: traders[WHALE].clone(),
                },
                &[],
            )
            .map_err(e)?;
        }
        // a second fee pool the engine owner may switch to (deployed last: no earlier address changes)
        let fee_pool2 = app
            .instantiate_contract(fee_code, Addr::unchecked(&owner), &fp::InstantiateMsg {}, &[], "fee_pool2", None)
            .map_err(e)?;
        // a second registry of the same code in which every vAMM of the deployment is listed (up to its capacity): a vAMM may be
        // pointed at it, the engine never is. Deployed last, so no earlier address changes.
        let fund2 = app
            .instantiate_contract(fund_code, Addr::unchecked(&owner), &fund::InstantiateMsg { engine: engine.to_string() }, &[], "fund2", None)
            .map_err(e)?;
        for v in vamms.iter().take(3) {
            app.execute_contract(Addr::unchecked(&owner), fund2.clone(), &fund::ExecuteMsg::AddVamm { vamm: v.to_string() }, &[]).map_err(e)?;
        }
        let mut accounts = users.clone();
        accounts.push(engine.to_string());
        accounts.push(fund_addr.to_string());
        accounts.push(fee_pool.to_string());
        for v in &vamms {
            accounts.push(v.to_string());
        }
        for or in &oracles {
            accounts.push(or.to_string());
        }
        accounts.push(fee_pool2.to_string());
        let idx_pool2 = accounts.len() - 1;
        accounts.push(RETIRED_FUND.to_string());
        accounts.push(ENGINE_TYPO.to_string());
        accounts.push(TRADERS[ALIAS_ATTACKER].to_uppercase());
        let mut contract_set: Vec<String> = vec![engine.to_string(), fund_addr.to_string(), fee_pool.to_string(), fee_pool2.to_string()];
        contract_set.extend(vamms.iter().map(|a| a.to_string()));
        contract_set.extend(oracles.iter().map(|a| a.to_string()));
        if let Some(t) = &token {
            contract_set.push(t.to_string());
        }
        instr::set_contract_set(&contract_set, NATIVE_DENOM);
        let mut w = World {
            app,
            cfg: cfg.clone(),
            d,
            owner,
            pauser,
            stranger,
            liquidator,
            traders,
            token,
            engine,
            fund: fund_addr,
            pools: [fee_pool.clone(), fee_pool2],
            idx_pool2,
            fund2,
            fee_pool,
            vamms,
            oracles,
            keys,
            accounts,
            vamm_code,
            mock_feed_code,
            paused: false,
            oracle_model: cfg.vamms.iter().map(|v| v.oracle_price).collect(),
            engine_code,
            fund_code,
            alien_vamm,
            orphan_vamm,
            fmodel: Default::default(),
            rmodel: Default::default(),
            created_at: (0, 0),
            follow: Default::default(),
            stray_funding_coins: false,
            vamm_admins: vec![],
        };
        w.vamm_admins = vec![w.owner.clone(); w.vamms.len()];
        if cfg.fund_owns_vamms {
            for v in 0..w.vamms.len() {
                let a = w.vamms[v].clone();
                let owner = w.owner.clone();
                let r = w.exec(&owner, &a, &vamm::ExecuteMsg::UpdateOwner { owner: w.fund.to_string() }, &[], None);
                if r.ok {
                    w.vamm_admins[v] = w.fund.to_string();
                }
            }
        }
        // a deployment is used from the block after its creation (see DESIGN C15)
        w.created_at = (w.now(), w.height());
        w.next_block(15, 1);
        Ok(w)
    }

    /// the account that currently owns vAMM `v` (tracked from the deployment and the harness's own transfers)
    pub fn vamm_admin(&self, v: usize) -> &str {
        self.vamm_admins.get(v).map(|s| s.as_str()).unwrap_or(self.owner.as_str())
    }
    pub fn idx_engine(&self) -> usize {
        N_TRADERS + 4
    }
    pub fn idx_fund(&self) -> usize {
        N_TRADERS + 5
    }
    pub fn idx_fee_pool(&self) -> usize {
        if self.fee_pool == self.pools[0] {
            N_TRADERS + 6
        } else {
            self.idx_pool2
        }
    }
    pub fn idx_liquidator(&self) -> usize {
        N_TRADERS
    }

    pub fn next_block(&mut self, dt: u64, dh: u64) {
        self.app.update_block(|b| {
            b.height += dh;
            b.time = b.time.plus_seconds(dt);
        });
    }

    pub fn now(&self) -> u64 {
        self.app.block_info().time.seconds()
    }
    pub fn height(&self) -> u64 {
        self.app.block_info().height
    }

    pub fn dump(&self) -> Vec<(Vec<u8>, Vec<u8>)> {
        self.app
            .read_module(|_r, _a, s| s.range(None, None, Order::Ascending).collect())
    }

    pub fn snapshot(&self) -> Snapshot {
        Snapshot {
            kv: self.dump(),
            block: self.app.block_info(),
            paused: self.paused,
            oracle_model: self.oracle_model.clone(),
            fee_pool: self.fee_pool.clone(),
        }
    }

    pub fn restore(&mut self, snap: &Snapshot) {
        self.app.init_modules(|_r, _a, s| {
            let keys: Vec<Vec<u8>> = s.range(None, None, Order::Ascending).map(|(k, _)| k).collect();
            for k in keys {
                s.remove(&k);
            }
            for (k, v) in &snap.kv {
                s.set(k, v);
            }
        });
        self.app.set_block(snap.block.clone());
        self.paused = snap.paused;
        self.oracle_model = snap.oracle_model.clone();
        self.fee_pool = snap.fee_pool.clone();
    }

    pub fn set_time(&mut self, height: u64, secs: u64) {
        let mut b = self.app.block_info();
        b.height = height;
        b.time = Timestamp::from_seconds(secs);
        self.app.set_block(b);
    }

    /// Execute one transaction sent by an external account; panics inside contracts count as failure.
    pub fn exec<T: Serialize + std::fmt::Debug>(
        &mut self,
        sender: &str,
        contract: &Addr,
        msg: &T,
        funds: &[Coin],
        fault_at: Option<usize>,
    ) -> TxRes {
        instr::begin_tx(fault_at);
        let r = catch_unwind(AssertUnwindSafe(|| {
            self.app
                .execute_contract(Addr::unchecked(sender), contract.clone(), msg, funds)
        }));
        let TxInstr {
            n_msgs,
            fault_hit,
            xfers,
            msgs,
        } = instr::end_tx();
        match r {
            Ok(Ok(resp)) => TxRes {
                ok: true,
                err: String::new(),
                panicked: false,
                n_msgs,
                fault_hit,
                xfers,
                msgs,
                events: resp.events,
            },
            Ok(Err(e)) => TxRes {
                ok: false,
                err: e.root_cause().to_string(),
                panicked: false,
                n_msgs,
                fault_hit,
                xfers: vec![],
                msgs,
                events: vec![],
            },
            Err(p) => {
                let s = if let Some(s) = p.downcast_ref::<String>() {
                    s.clone()
                } else if let Some(s) = p.downcast_ref::<&str>() {
                    s.to_string()
                } else {
                    "?".into()
                };
                TxRes {
                    ok: false,
                    err: format!("PANIC: {}", s),
                    panicked: true,
                    n_msgs,
                    fault_hit,
                    xfers: vec![],
                    msgs,
                    events: vec![],
                }
            }
        }
    }

    /// like `exec`, for a message given as JSON text
    pub fn exec_json(&mut self, sender: &str, contract: &Addr, json: &serde_json::Value, fault_at: Option<usize>) -> TxRes {
        let msg = cosmwasm_std::CosmosMsg::Wasm(cosmwasm_std::WasmMsg::Execute {
            contract_addr: contract.to_string(),
            msg: cosmwasm_std::Binary(serde_json::to_vec(json).unwrap()),
            funds: vec![],
        });
        instr::begin_tx(fault_at);
        let r = catch_unwind(AssertUnwindSafe(|| self.app.execute(Addr::unchecked(sender), msg)));
        let TxInstr { n_msgs, fault_hit, xfers, msgs } = instr::end_tx();
        match r {
            Ok(Ok(resp)) => TxRes { ok: true, err: String::new(), panicked: false, n_msgs, fault_hit, xfers, msgs, events: resp.events },
            Ok(Err(e)) => TxRes { ok: false, err: e.root_cause().to_string(), panicked: false, n_msgs, fault_hit, xfers: vec![], msgs, events: vec![] },
            Err(_) => TxRes { ok: false, err: "PANIC".into(), panicked: true, n_msgs, fault_hit, xfers: vec![], msgs, events: vec![] },
        }
    }

    pub fn query<T: DeserializeOwned, M: Serialize>(&self, contract: &Addr, msg: &M) -> Result<T, String> {
        match catch_unwind(AssertUnwindSafe(|| {
            self.app.wrap().query_wasm_smart::<T>(contract.clone(), msg)
        })) {
            Ok(Ok(v)) => Ok(v),
            Ok(Err(e)) => Err(e.to_string()),
            Err(_) => Err("PANIC".into()),
        }
    }

    pub fn balance(&self, who: &str) -> u128 {
        match &self.token {
            Some(t) => self
                .query::<BalanceResponse, _>(t, &Cw20QueryMsg::Balance { address: who.to_string() })
                .map(|b| b.balance.u128())
                .unwrap_or(0),
            None => self
                .app
                .wrap()
                .query_balance(who, NATIVE_DENOM)
                .map(|c| c.amount.u128())
                .unwrap_or(0),
        }
    }

    pub fn balances(&self) -> Vec<u128> {
        self.accounts.iter().map(|a| self.balance(a)).collect()
    }

    pub fn position(&self, v: usize, trader: &str) -> Option<eng::Position> {
        self.query::<eng::Position, _>(
            &self.engine,
            &eng::QueryMsg::Position {
                vamm: self.vamms[v].to_string(),
                trader: trader.to_string(),
            },
        )
        .ok()
    }

    pub fn vamm_state(&self, v: usize) -> vamm::StateResponse {
        self.query(&self.vamms[v], &vamm::QueryMsg::State {}).expect("vamm state")
    }
    pub fn vamm_config(&self, v: usize) -> vamm::ConfigResponse {
        self.query(&self.vamms[v], &vamm::QueryMsg::Config {}).expect("vamm config")
    }
    pub fn engine_config(&self) -> eng::ConfigResponse {
        self.query(&self.engine, &eng::QueryMsg::Config {}).expect("engine config")
    }
    pub fn engine_state(&self) -> eng::StateResponse {
        self.query(&self.engine, &eng::QueryMsg::State {}).expect("engine state")
    }
    pub fn cpf(&self, v: usize) -> (bool, u128) {
        let i: Integer = self
            .query(
                &self.engine,
                &eng::QueryMsg::CumulativePremiumFraction {
                    vamm: self.vamms[v].to_string(),
                },
            )
            .expect("cpf");
        int_to_i(i)
    }
    pub fn is_registered(&self, v: &Addr) -> bool {
        self.query::<fund::VammResponse, _>(&self.fund, &fund::QueryMsg::IsVamm { vamm: v.to_string() })
            .map(|r| r.is_vamm)
            .unwrap_or(false)
    }
    pub fn spot(&self, v: usize) -> u128 {
        let st = self.vamm_state(v);
        mul_div_floor(st.quote_asset_reserve.u128(), self.d, st.base_asset_reserve.u128())
    }
    /// raw key presence in the engine's storage (in-flight residue check)
    pub fn engine_has_raw_key(&self, key: &[u8]) -> bool {
        let mut k = vec![0u8, key.len() as u8];
        k.extend_from_slice(key);
        self.app
            .dump_wasm_raw(&self.engine)
            .iter()
            .any(|(kk, _)| kk == &k || kk == key)
    }
    /// the engine's pause flag read from raw storage (cross-check only)
    pub fn raw_paused(&self) -> Option<bool> {
        let key = b"state";
        let mut k = vec![0u8, key.len() as u8];
        k.extend_from_slice(key);
        for (kk, v) in self.app.dump_wasm_raw(&self.engine) {
            if kk == k {
                let j: serde_json::Value = serde_json::from_slice(&v).ok()?;
                return j.get("pause").and_then(|p| p.as_bool());
            }
        }
        None
    }
    pub fn set_oracle_price(&mut self, v: usize, price: u128, timestamp: u64) -> TxRes {
        let key = self.keys[v].clone();
        let oracle = self.oracles[v].clone();
        let owner = self.owner.clone();
        let r = self.exec(
            &owner,
            &oracle,
            &feed::ExecuteMsg::AppendPrice {
                key,
                price: u(price),
                timestamp,
            },
            &[],
            None,
        );
        if r.ok {
            self.oracle_model[v] = price;
        }
        r
    }
    pub fn funds(&self, amount: u128) -> Vec<Coin> {
        if self.cfg.native && amount > 0 {
            vec![Coin::new(amount, NATIVE_DENOM)]
        } else {
            vec![]
        }
    }
}

pub fn mul_div_floor(a: u128, b: u128, c: u128) -> u128 {
    use cosmwasm_std::Uint256;
    if c == 0 {
        // a reserve of zero only occurs on a broken tree; saturate instead of panicking inside the harness
        return u128::MAX;
    }
    let r = Uint256::from(a) * Uint256::from(b) / Uint256::from(c);
    Uint128::try_from(r).map(|x| x.u128()).unwrap_or(u128::MAX)
}
