//! Reference computations over observable state (queries of the public API + exact arithmetic).
use crate::hist::Obs;
use crate::refmath::{funding_owed, pnl, ratio, S};
use crate::world::{u, World};
use cosmwasm_std::Uint128;
use margined_perp::margined_vamm as vamm;
use margined_perp::margined_vamm::Direction;

#[derive(Clone, Debug)]
pub struct PosRef {
    pub long: bool,
    pub size: u128,
    pub margin: u128,
    pub notional: u128,
    /// funding owed F = trunc((Phi - L) * S / D), signed
    pub funding: S,
    /// quote value of the whole position at spot / 15-min TWAP (vAMM OutputAmount / OutputTwap)
    pub n_spot: Option<u128>,
    pub n_twap: Option<u128>,
    /// the same 15-minute TWAP value recomputed by the harness from its own record of block-final reserves (main history
    /// line only; None where the record or the 128-bit arithmetic gives no value)
    pub n_twap_ref: Option<u128>,
}

impl PosRef {
    pub fn signed_size(&self) -> S {
        if self.long {
            S::pos(self.size)
        } else {
            S::negv(self.size)
        }
    }
    pub fn pnl_spot(&self) -> Option<S> {
        self.n_spot.map(|n| pnl(self.long, n, self.notional))
    }
    pub fn pnl_twap(&self) -> Option<S> {
        self.n_twap.map(|n| pnl(self.long, n, self.notional))
    }
    /// (pnl, notional) the margin-ratio definition uses: whichever of spot and TWAP PnL is smaller in magnitude
    pub fn chosen(&self) -> Option<(S, u128, bool)> {
        let (ps, pt) = (self.pnl_spot()?, self.pnl_twap()?);
        if ps.abs().gt(&pt.abs()) {
            Some((pt, self.n_twap?, true))
        } else {
            Some((ps, self.n_spot?, false))
        }
    }
    /// margin + pnl - funding owed
    pub fn equity(&self, pnl: &S) -> S {
        S::pos(self.margin).add(pnl).sub(&self.funding)
    }
}

/// Harness model of funding, built from the history alone: each vAMM's cumulative premium fraction is the sum of the
/// movements observed *at successful settlements*, and each position's checkpoint is the model fraction at its owner's last
/// charged operation (order, partial close, withdrawal; the statement of C11). Neither is read back from the engine's
/// stored checkpoint or from its cumulative fraction outside settlements, so a stale checkpoint or a fraction that
/// moves without a settlement does not fool the checks that use funding owed.
#[derive(Clone, Debug, Default)]
pub struct FundingModel {
    pub on: bool,
    pub phi: Vec<S>,
    pub l: std::collections::BTreeMap<(usize, usize), S>,
    /// reference premium fraction of the settlement about to be executed: (vAMM TWAP - oracle TWAP) x period / one day from the
    /// pre-state's own query answers; a successful settlement advances the model by it (by the observed movement if the
    /// queries gave no answer)
    pub ref_frac: Option<S>,
}

impl FundingModel {
    pub fn start(&mut self, obs: &Obs) {
        self.on = true;
        self.phi = obs.v.iter().map(|v| v.cpf).collect();
        self.l.clear();
    }
    /// called once per executed step of the main history line (never for what-if experiments)
    pub fn step(&mut self, act: &crate::hist::Act, pre: &Obs, post: &Obs, ok: bool) {
        let ref_frac = self.ref_frac.take();
        if !self.on || !ok {
            return;
        }
        use crate::hist::Act;
        if let Act::PayFunding { v, .. } = act {
            let dphi = ref_frac.unwrap_or_else(|| post.v[*v].cpf.sub(&pre.v[*v].cpf));
            self.phi[*v] = self.phi[*v].add(&dphi);
            return;
        }
        if let Some((v, t)) = act.subject() {
            let exists = post.pos[v][t].as_ref().map(|p| !p.size.is_zero()).unwrap_or(false);
            match act {
                Act::Open { .. } | Act::Close { .. } | Act::Withdraw { .. } => {
                    if exists {
                        self.l.insert((v, t), self.phi[v]);
                    } else {
                        self.l.remove(&(v, t));
                    }
                }
                Act::Liquidate { .. } => {
                    if !exists {
                        self.l.remove(&(v, t));
                    }
                }
                _ => {}
            }
        }
    }
    /// to be called on the pre-state of a PayFunding step of the main history line
    pub fn expect_settlement(&mut self, w: &World, pre: &Obs, v: usize) {
        self.ref_frac = None;
        if !self.on {
            return;
        }
        let i = pre.v[v].cfg.spot_price_twap_interval;
        let tw = w.query::<Uint128, _>(&w.vamms[v], &vamm::QueryMsg::TwapPrice { interval: i }).ok();
        let un = w.query::<Uint128, _>(&w.vamms[v], &vamm::QueryMsg::UnderlyingTwapPrice { interval: i }).ok();
        if let (Some(tw), Some(un)) = (tw, un) {
            let period = pre.v[v].cfg.funding_period as u128;
            self.ref_frac = Some(S::pos(tw.u128()).sub(&S::pos(un.u128())).mul(&S::pos(period)).div_trunc(&S::pos(86400)));
        }
    }
    pub fn owed(&self, v: usize, t: usize, signed_size: S, d: u128) -> Option<S> {
        if !self.on {
            return None;
        }
        self.l.get(&(v, t)).map(|l| funding_owed(self.phi[v], *l, signed_size, d))
    }
}

/// Harness record of each vAMM's reserves at the end of every block in which they changed (what the vAMM's one-snapshot-per-
/// block history must contain), built from the observations of the main history line: creation, then per block the final
/// reserves. The 15-minute TWAP of a position's value is recomputed from it.
#[derive(Clone, Debug, Default)]
pub struct ReserveModel {
    pub on: bool,
    /// per vAMM: (time in seconds, block height, quote reserve, base reserve)
    pub hist: Vec<Vec<(u64, u64, u128, u128)>>,
}

impl ReserveModel {
    pub fn start(&mut self, obs: &Obs, created_at: u64, created_height: u64) {
        self.on = true;
        self.hist = obs.v.iter().map(|v| vec![(created_at, created_height, v.state.quote_asset_reserve.u128(), v.state.base_asset_reserve.u128())]).collect();
    }
    /// called once per executed step of the main history line
    pub fn step(&mut self, pre: &Obs, post: &Obs) {
        if !self.on {
            return;
        }
        for v in 0..post.v.len() {
            let (x0, y0) = (pre.v[v].state.quote_asset_reserve.u128(), pre.v[v].state.base_asset_reserve.u128());
            let (x1, y1) = (post.v[v].state.quote_asset_reserve.u128(), post.v[v].state.base_asset_reserve.u128());
            if (x0, y0) == (x1, y1) {
                continue;
            }
            let h = &mut self.hist[v];
            let last = h.len() - 1;
            if h[last].1 == post.height {
                h[last].2 = x1;
                h[last].3 = y1;
            } else {
                h.push((post.time, post.height, x1, y1));
            }
        }
    }
    /// time-weighted mean over the last 15 minutes of the quote value of `amount` base (added to / removed from the pool)
    pub fn output_twap(&self, v: usize, add: bool, amount: u128, now: u64, d: u128) -> Option<u128> {
        if !self.on || v >= self.hist.len() {
            return None;
        }
        let mut ph: Vec<(u64, u128)> = vec![];
        // only the entries the window can reach are priced (the contract prices no others either)
        let base = now.saturating_sub(900);
        let h = &self.hist[v];
        let mut first = 0;
        for i in (0..h.len()).rev() {
            first = i;
            if h[i].0 <= base {
                break;
            }
        }
        for e in &h[first..] {
            ph.push((e.0, crate::refmath::output_quote(e.2, e.3, d, add, amount)?));
        }
        Some(crate::refmath::twap_ref(&ph, now, 900).2)
    }
}

/// `pos_ref` with the funding owed taken from the history model (see `FundingModel`) where the model knows the position.
/// For observations of the main history line only (a what-if experiment does not advance the model).
pub fn pos_ref_m(w: &World, obs: &Obs, v: usize, t: usize) -> Option<PosRef> {
    let mut pr = pos_ref(w, obs, v, t)?;
    let signed = obs.pos[v][t].as_ref().map(|p| S::from_integer(p.size))?;
    if let Some(f) = w.fmodel.owed(v, t, signed, w.d) {
        pr.funding = f;
    }
    pr.n_twap_ref = w.rmodel.output_twap(v, pr.long, pr.size, obs.time, w.d);
    Some(pr)
}

pub fn pos_ref(w: &World, obs: &Obs, v: usize, t: usize) -> Option<PosRef> {
    let p = obs.pos[v][t].as_ref()?;
    if p.size.is_zero() {
        return None;
    }
    let long = !S::from_integer(p.size).is_neg();
    let size = p.size.value.u128();
    let dir = if long { Direction::AddToAmm } else { Direction::RemoveFromAmm };
    let n_spot = w
        .query::<Uint128, _>(&w.vamms[v], &vamm::QueryMsg::OutputAmount { direction: dir.clone(), amount: u(size) })
        .ok()
        .map(|x| x.u128());
    let n_twap = w
        .query::<Uint128, _>(&w.vamms[v], &vamm::QueryMsg::OutputTwap { direction: dir, amount: u(size) })
        .ok()
        .map(|x| x.u128());
    let l = S::from_integer(p.last_updated_premium_fraction);
    let s = S::from_integer(p.size);
    Some(PosRef {
        long,
        size,
        margin: p.margin.u128(),
        notional: p.notional.u128(),
        funding: funding_owed(obs.v[v].cpf, l, s, w.d),
        n_spot,
        n_twap,
        n_twap_ref: None,
    })
}

/// margin ratio as defined for liquidation. None when it cannot be computed from the API answers.
/// Returns (ratio, used_twap, oracle_override_applied, spread_over_limit)
pub fn liq_ratio(w: &World, obs: &Obs, v: usize, pr: &PosRef) -> Option<(S, bool, bool, bool)> {
    let d = w.d;
    let (pn, n, used_twap) = pr.chosen()?;
    if n == 0 {
        return None;
    }
    let mut r = ratio(pr.equity(&pn), n, d);
    // the oracle's latest price: the vAMM's own answer, or (when the vAMM cannot read its feed) the last
    // price the harness submitted to that feed
    let oracle = match w.query::<Uint128, _>(&w.vamms[v], &vamm::QueryMsg::UnderlyingPrice {}) {
        Ok(o) => o.u128(),
        Err(_) => w.oracle_model[v],
    };
    if oracle == 0 {
        return None;
    }
    let spot = obs.v[v].spot;
    // "at least 10% away from the oracle"
    let spread = S::pos(spot).sub(&S::pos(oracle)).mul(&S::pos(d)).div_trunc(&S::pos(oracle));
    let over = spread.abs().ge(&S::pos(d / 10));
    let mut applied = false;
    if over {
        let n_o = crate::refmath::to_u128(crate::refmath::mul_div(oracle, pr.size, d))?;
        if n_o == 0 {
            return None;
        }
        let p_o = pnl(pr.long, n_o, pr.notional);
        let r_o = ratio(pr.equity(&p_o), n_o, d);
        if r_o.gt(&r) {
            r = r_o;
            applied = true;
        }
    }
    Some((r, used_twap, applied, over))
}

/// sum of logged transfers from `from` to `to`
pub fn flow(xfers: &[crate::instr::Xfer], from: Option<&str>, to: &str) -> u128 {
    xfers
        .iter()
        .filter(|x| x.to == to && from.map(|f| x.from == f).unwrap_or(true))
        .map(|x| x.amount)
        .sum()
}
