//! Independent exact reference arithmetic. Nothing here calls contract code.
//! Unsigned values live in Uint256, signed values in `S` (sign + Uint256 magnitude, zero is never negative).
use cosmwasm_std::{Uint128, Uint256};
use margined_common::integer::Integer;
use std::cmp::Ordering;

pub fn u256(x: u128) -> Uint256 {
    Uint256::from(x)
}

#[derive(Clone, Copy, Debug, PartialEq, Eq)]
pub struct S {
    pub neg: bool,
    pub mag: Uint256,
}

impl S {
    pub fn zero() -> S {
        S {
            neg: false,
            mag: Uint256::zero(),
        }
    }
    pub fn new(neg: bool, mag: Uint256) -> S {
        S {
            neg: neg && !mag.is_zero(),
            mag,
        }
    }
    pub fn pos(x: u128) -> S {
        S::new(false, u256(x))
    }
    pub fn negv(x: u128) -> S {
        S::new(true, u256(x))
    }
    pub fn from_i128(x: i128) -> S {
        S::new(x < 0, u256(x.unsigned_abs()))
    }
    /// value of a contract Integer as a mathematical integer (negative zero is zero)
    pub fn from_integer(i: Integer) -> S {
        S::new(i.negative, u256(i.value.u128()))
    }
    pub fn is_zero(&self) -> bool {
        self.mag.is_zero()
    }
    pub fn is_neg(&self) -> bool {
        self.neg
    }
    pub fn abs(&self) -> S {
        S::new(false, self.mag)
    }
    pub fn negate(&self) -> S {
        S::new(!self.neg, self.mag)
    }
    pub fn add(&self, o: &S) -> S {
        if self.neg == o.neg {
            S::new(self.neg, self.mag + o.mag)
        } else if self.mag >= o.mag {
            S::new(self.neg, self.mag - o.mag)
        } else {
            S::new(o.neg, o.mag - self.mag)
        }
    }
    pub fn sub(&self, o: &S) -> S {
        self.add(&o.negate())
    }
    pub fn mul(&self, o: &S) -> S {
        S::new(self.neg != o.neg, self.mag * o.mag)
    }
    /// truncation toward zero; divisor must be non-zero
    pub fn div_trunc(&self, o: &S) -> S {
        S::new(self.neg != o.neg, self.mag / o.mag)
    }
    pub fn cmp(&self, o: &S) -> Ordering {
        match (self.neg, o.neg) {
            (false, true) => Ordering::Greater,
            (true, false) => Ordering::Less,
            (false, false) => self.mag.cmp(&o.mag),
            (true, true) => o.mag.cmp(&self.mag),
        }
    }
    pub fn lt(&self, o: &S) -> bool {
        self.cmp(o) == Ordering::Less
    }
    pub fn le(&self, o: &S) -> bool {
        self.cmp(o) != Ordering::Greater
    }
    pub fn gt(&self, o: &S) -> bool {
        self.cmp(o) == Ordering::Greater
    }
    pub fn ge(&self, o: &S) -> bool {
        self.cmp(o) != Ordering::Less
    }
    pub fn fits_u128(&self) -> bool {
        self.mag <= Uint256::from(u128::MAX)
    }
    pub fn mag_u128(&self) -> Option<u128> {
        Uint128::try_from(self.mag).ok().map(|x| x.u128())
    }
    pub fn to_i128_sat(&self) -> i128 {
        let m = self.mag_u128().unwrap_or(u128::MAX).min(i128::MAX as u128) as i128;
        if self.neg {
            -m
        } else {
            m
        }
    }
}

impl std::fmt::Display for S {
    fn fmt(&self, f: &mut std::fmt::Formatter) -> std::fmt::Result {
        if self.neg {
            write!(f, "-{}", self.mag)
        } else {
            write!(f, "{}", self.mag)
        }
    }
}

/// floor(a*b/c) in 256 bits
pub fn mul_div(a: u128, b: u128, c: u128) -> Uint256 {
    u256(a) * u256(b) / u256(c)
}

pub fn to_u128(x: Uint256) -> Option<u128> {
    Uint128::try_from(x).ok().map(|v| v.u128())
}

/// fee = floor(n * ratio / D)
pub fn fee(n: u128, ratio: u128, d: u128) -> u128 {
    to_u128(mul_div(n, ratio, d)).unwrap_or(u128::MAX)
}

/// scaled product floor(x*y/D)
pub fn scaled_k(x: u128, y: u128, d: u128) -> Uint256 {
    u256(x) * u256(y) / u256(d)
}

/// funding owed F = trunc((phi - l) * size / D)
pub fn funding_owed(phi: S, checkpoint: S, size: S, d: u128) -> S {
    phi.sub(&checkpoint).mul(&size).div_trunc(&S::pos(d))
}

/// pnl by direction: long (size>0): value - notional; short: notional - value
pub fn pnl(long: bool, value: u128, notional: u128) -> S {
    if long {
        S::pos(value).sub(&S::pos(notional))
    } else {
        S::pos(notional).sub(&S::pos(value))
    }
}

/// margin ratio r = trunc(equity * D / n)   (n > 0)
pub fn ratio(equity: S, n: u128, d: u128) -> S {
    equity.mul(&S::pos(d)).div_trunc(&S::pos(n))
}

/// time-weighted mean over a history of (timestamp, price) entries, evaluated at `now` over `interval`.
/// History entries are block-final values, strictly increasing timestamps; first entry = creation.
/// Returns (lo, hi, mean_floor) over the entries in effect in [now-interval, now].
pub fn twap_ref(hist: &[(u64, u128)], now: u64, interval: u64) -> (u128, u128, u128) {
    let n = hist.len();
    let last = hist[n - 1];
    if interval == 0 || n == 1 {
        return (last.1, last.1, last.1);
    }
    let base = now.saturating_sub(interval);
    if last.0 <= base {
        return (last.1, last.1, last.1);
    }
    let mut lo = u128::MAX;
    let mut hi = 0u128;
    let mut w = Uint256::zero();
    let mut tot: u64 = 0;
    let mut prev = now;
    let mut reached_base = false;
    for i in (0..n).rev() {
        let (t, p) = hist[i];
        lo = lo.min(p);
        hi = hi.max(p);
        if t <= base {
            w += u256(p) * u256((prev - base) as u128);
            tot += prev - base;
            reached_base = true;
            break;
        }
        w += u256(p) * u256((prev - t) as u128);
        tot += prev - t;
        prev = t;
    }
    let _ = reached_base;
    let mean = if tot == 0 {
        last.1
    } else {
        to_u128(w / u256(tot as u128)).unwrap_or(u128::MAX)
    };
    (lo, hi, mean)
}

/// quote amount the constant-product curve exchanges for `b` base at reserves (x, y): with K = floor(x*y/D) the other side
/// moves to floor(K*D / y'), y' = y + b when base is added and y - b when it is removed, and a non-zero remainder is resolved
/// in the curve's favour (one unit less paid out when base is added, one unit more charged when it is removed).
/// None where 128-bit arithmetic cannot represent an intermediate value or the trade empties the pool.
pub fn output_quote(x: u128, y: u128, d: u128, add: bool, b: u128) -> Option<u128> {
    if b == 0 {
        return Some(0);
    }
    let k = to_u128(u256(x) * u256(y))? / d;
    let y1 = if add { y.checked_add(b)? } else { y.checked_sub(b)? };
    if y1 == 0 {
        return None;
    }
    let kd = k.checked_mul(d)?;
    let x1 = kd / y1;
    let moved = x1.abs_diff(x);
    if kd % y1 == 0 {
        Some(moved)
    } else if add {
        moved.checked_sub(1)
    } else {
        moved.checked_add(1)
    }
}
