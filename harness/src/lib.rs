//! pverif: generated-input verification harness for margined-protocol/perpetuals (see /verif/DESIGN.md).
pub mod hist;
pub mod instr;
pub mod ops;
pub mod oracle;
pub mod props;
pub mod refmath;
pub mod run;
pub mod util;
pub mod vsim;
pub mod world;

use run::{drive, fuzz_one, replay_one, Property, Tier};
use std::path::Path;

/// object-safe view of a property
pub trait Runner {
    fn drive(&self, tier: Tier) -> i32;
    fn replay(&self, path: &Path) -> i32;
    /// one coverage-guided fuzz iteration: bytes feed the property's own proptest strategy (pass-through RNG);
    /// returns the path of the replay file written if the case violates the property
    fn fuzz(&self, data: &[u8]) -> Option<String>;
}
impl<P: Property> Runner for P {
    fn drive(&self, tier: Tier) -> i32 {
        drive(self, tier)
    }
    fn replay(&self, path: &Path) -> i32 {
        replay_one(self, path, true)
    }
    fn fuzz(&self, data: &[u8]) -> Option<String> {
        fuzz_one(self, data)
    }
}

pub fn with_prop(id: &str, f: &mut dyn FnMut(&dyn Runner) -> i32) -> i32 {
    match id {
        "C01" => f(&props::c01::C01),
        "C02" => f(&props::c02::prop()),
        "C03" => f(&props::c03::prop()),
        "C04" => f(&props::c04::prop()),
        "C05" => f(&props::c05::prop()),
        "C06" => f(&props::c06::prop06()),
        "C07" => f(&props::c06::prop07()),
        "C08" => f(&props::c08::prop()),
        "C09" => f(&props::c09::C09),
        "C10" => f(&props::c10::prop()),
        "C11" => f(&props::c11::prop()),
        "C12" => f(&props::c12::prop()),
        "C13" => f(&props::c13::C13),
        "C14" => f(&props::c14::prop()),
        "C15" => f(&props::c15::prop()),
        "C16" => f(&props::c16::prop()),
        "C17" => f(&props::c17::C17),
        "C18" => f(&props::c18::C18),
        "C19" => f(&props::c19::C19),
        "C20" => f(&props::c20::prop()),
        _ => {
            println!("unknown or unclaimed property {}", id);
            2
        }
    }
}

