//! vAMM-only world: the contract's entry points on mock dependencies (the sender plays the margin engine).
use cosmwasm_std::testing::{mock_dependencies, mock_env, mock_info, MockApi, MockQuerier, MockStorage};
use cosmwasm_std::{from_binary, Env, OwnedDeps, Response, Timestamp, Uint128};
use margined_perp::margined_vamm::{Direction, ExecuteMsg, InstantiateMsg, QueryMsg, StateResponse};
use margined_vamm::contract::{execute, instantiate, query};
use serde::de::DeserializeOwned;
use std::panic::{catch_unwind, AssertUnwindSafe};

pub struct VSim {
    pub deps: OwnedDeps<MockStorage, MockApi, MockQuerier>,
    pub env: Env,
    pub d: u128,
    pub t0: u64,
}

pub const ENGINE: &str = "engine";
pub const OWNER: &str = "owner";

pub fn i_of(i: margined_common::integer::Integer) -> i128 {
    let m = i.value.u128().min(i128::MAX as u128) as i128;
    if i.negative {
        -m
    } else {
        m
    }
}

impl VSim {
    pub fn new(decimals: u8, x0: u128, y0: u128, fluct: u128, toll: u128, spread: u128) -> Result<VSim, String> {
        let mut deps = mock_dependencies();
        // the price feed: answers every smart query with a price of one whole unit (needed by SettleFunding only)
        let unit = 10u128.pow(decimals as u32);
        deps.querier.update_wasm(move |_q| {
            cosmwasm_std::SystemResult::Ok(cosmwasm_std::ContractResult::Ok(cosmwasm_std::to_binary(&Uint128::new(unit)).unwrap()))
        });
        let env = mock_env();
        let r = catch_unwind(AssertUnwindSafe(|| {
            instantiate(
                deps.as_mut(),
                env.clone(),
                mock_info(OWNER, &[]),
                InstantiateMsg {
                    decimals,
                    pricefeed: "oracle".into(),
                    margin_engine: Some(ENGINE.into()),
                    insurance_fund: Some("insfund".into()),
                    quote_asset: "USD".into(),
                    base_asset: "ETH".into(),
                    quote_asset_reserve: Uint128::new(x0),
                    base_asset_reserve: Uint128::new(y0),
                    funding_period: 3600,
                    toll_ratio: Uint128::new(toll),
                    spread_ratio: Uint128::new(spread),
                    fluctuation_limit_ratio: Uint128::new(fluct),
                },
            )
        }));
        match r {
            Ok(Ok(_)) => {}
            Ok(Err(e)) => return Err(e.to_string()),
            Err(_) => return Err("panic".into()),
        }
        let t0 = env.block.time.seconds();
        let mut s = VSim {
            deps,
            env,
            d: 10u128.pow(decimals as u32),
            t0,
        };
        s.exec(OWNER, ExecuteMsg::SetOpen { open: true })?;
        Ok(s)
    }
    pub fn exec(&mut self, sender: &str, msg: ExecuteMsg) -> Result<Response, String> {
        let env = self.env.clone();
        let deps = &mut self.deps;
        match catch_unwind(AssertUnwindSafe(|| execute(deps.as_mut(), env, mock_info(sender, &[]), msg))) {
            Ok(Ok(r)) => Ok(r),
            Ok(Err(e)) => Err(e.to_string()),
            Err(_) => Err("PANIC".into()),
        }
    }
    pub fn query<T: DeserializeOwned>(&self, msg: QueryMsg) -> Result<T, String> {
        match catch_unwind(AssertUnwindSafe(|| query(self.deps.as_ref(), self.env.clone(), msg))) {
            Ok(Ok(b)) => from_binary::<T>(&b).map_err(|e| e.to_string()),
            Ok(Err(e)) => Err(e.to_string()),
            Err(_) => Err("PANIC".into()),
        }
    }
    pub fn state(&self) -> StateResponse {
        self.query(QueryMsg::State {}).expect("state")
    }
    pub fn next_block(&mut self, dt: u64) {
        self.env.block.height += 1;
        self.env.block.time = Timestamp::from_seconds(self.env.block.time.seconds() + dt);
    }
    /// new block `dt` whole seconds later with a given sub-second fraction (block times carry nanoseconds)
    pub fn next_block_nanos(&mut self, dt: u64, frac_nanos: u64) {
        self.env.block.height += 1;
        let secs = self.env.block.time.seconds() + dt;
        let mut t = Timestamp::from_nanos(secs * 1_000_000_000 + frac_nanos % 1_000_000_000);
        // time never goes backwards
        if t.nanos() <= self.env.block.time.nanos() {
            t = Timestamp::from_nanos(self.env.block.time.nanos() + 1);
        }
        self.env.block.time = t;
    }
    pub fn now(&self) -> u64 {
        self.env.block.time.seconds()
    }
    pub fn dump(&self) -> Vec<(Vec<u8>, Vec<u8>)> {
        use cosmwasm_std::{Order, Storage};
        self.deps.storage.range(None, None, Order::Ascending).collect()
    }
}

pub fn dir(add: bool) -> Direction {
    if add {
        Direction::AddToAmm
    } else {
        Direction::RemoveFromAmm
    }
}

pub fn attr(r: &Response, key: &str) -> Option<String> {
    r.attributes.iter().find(|a| a.key == key).map(|a| a.value.clone())
}
