//! Small helpers: u128 <-> decimal-string serde (JSON numbers cannot carry 128 bits through `Value`).
pub mod u128s {
    use serde::{de, Deserialize, Deserializer, Serializer};
    pub fn serialize<S: Serializer>(v: &u128, s: S) -> Result<S::Ok, S::Error> {
        s.serialize_str(&v.to_string())
    }
    pub fn deserialize<'de, D: Deserializer<'de>>(d: D) -> Result<u128, D::Error> {
        #[derive(Deserialize)]
        #[serde(untagged)]
        enum E {
            S(String),
            N(u64),
        }
        match E::deserialize(d)? {
            E::S(s) => s.parse::<u128>().map_err(de::Error::custom),
            E::N(n) => Ok(n as u128),
        }
    }
}
