#![no_main]
//! Coverage-guided fuzz target: the bytes are the entropy of the property's own proptest generators; the property's
//! monitor (the semantic oracle) runs inside the target. Property chosen by PVERIF_FUZZ_PROP (default C01).
use libfuzzer_sys::fuzz_target;
use std::sync::Once;

static INIT: Once = Once::new();

fuzz_target!(|data: &[u8]| {
    INIT.call_once(|| {
        // contract panics are failed transactions, not crashes of the target
        std::panic::set_hook(Box::new(|info| {
            let s = info.to_string();
            if s.contains("PVERIF-VIOLATION") {
                eprintln!("{}", s);
            }
        }));
    });
    let id = std::env::var("PVERIF_FUZZ_PROP").unwrap_or_else(|_| "C01".to_string());
    let mut found: Option<String> = None;
    pverif::with_prop(&id, &mut |r| {
        found = r.fuzz(data);
        0
    });
    if let Some(path) = found {
        eprintln!("PVERIF-VIOLATION property={} replay={}", id, path);
        std::process::abort();
    }
});
