#!/usr/bin/env python3
"""Regenerates /verif/MANIFEST.json from the table below (kept in one place so it stays valid)."""
import json, sys
ALL = ["C%02d" % i for i in range(1, 21)]
PENDING = "check under construction in this session; will be claimed once it runs quietly on the unchanged tree"
# id -> (level, technique, level text, level note, design ref)
CLAIMED = {
 "C01": ("exploration", "stateful property-based testing (proptest): generated swap histories against the real vAMM entry points, invariant oracle over the history in 256-bit arithmetic",
         "generated reserve pairs and swap_input/swap_output histories (incl. return-to-earlier-position swaps) are executed through the vAMM's instantiate/execute/query; scaled product monotonicity, base+net-position conservation and the return clause are recomputed independently after every accepted swap",
         "mock dependencies stand in for the chain; return clause asserted only while base reserve >= 1 unit (see DESIGN C01)",
         "DESIGN.md §3 C01"),
 "C19": ("exploration", "property-based testing (proptest): generated operand pairs vs exact 256-bit reference arithmetic",
         "every public operation of Integer is compared with exact sign-magnitude big-integer arithmetic on generated operand pairs biased to zero, equal magnitudes and the 128-bit boundary; the space (2^258 pairs) cannot be enumerated, so this is search, not proof",
         "trusts cosmwasm_std::Uint256 arithmetic used by the reference; values are interpreted as (-1)^negative * value",
         "DESIGN.md §3 C19"),
}
NOT_APPLICABLE = {}

def main():
    checks = []
    for pid in ALL:
        if pid not in CLAIMED:
            continue
        level, tech, text, note, ref = CLAIMED[pid]
        checks.append({
            "property_id": pid,
            "quick_cmd": "bin/check %s quick" % pid,
            "thorough_cmd": "bin/check %s thorough" % pid,
            "evidence_file": "/verif/evidence/%s.json" % pid,
            "replay_cmd_template": "bin/check %s replay {path}" % pid,
            "engine": "pverif",
            "level_claimed": {"category": level, "text": text, "design_ref": ref},
            "level_note": note,
            "technique": tech,
        })
    na = []
    for pid in ALL:
        if pid in CLAIMED:
            continue
        na.append({"property_id": pid, "reason": NOT_APPLICABLE.get(pid, PENDING)})
    m = {
        "version": 1,
        "setup_cmd": "cd /verif/harness && CARGO_NET_OFFLINE=true cargo build --release --offline",
        "hooks": {
            "guard": "margined_protocol_perpetuals_verif",
            "enable": "none needed: all instrumentation (message-tree counter, fault plan, transfer log) lives in the harness as cw-multi-test Contract/Bank wrappers; the guard name is reserved and unused",
            "baseline_off_cmd": "cd /repo && cargo test --workspace --no-fail-fast --offline",
            "source_commits": [],
            "add_only": True,
        },
        "engines": [
            {"name": "pverif", "path": "/verif/harness", "serves_properties": sorted(CLAIMED.keys()),
             "kind_free_text": "Rust harness: proptest-driven generated cases / operation histories executed against the real contract entry points inside cw-multi-test, with explicit reference oracles, shrinking and JSON replay files"},
        ],
        "checks": checks,
        "not_applicable": na,
        "notes": "bin/check <id> quick|thorough|replay <file>. Exit 0 held / 1 VIOLATION / 2 inconclusive. Known findings: /verif/known_findings.json.",
    }
    json.dump(m, open("/verif/MANIFEST.json", "w"), indent=1)
    print("claimed:", ",".join(sorted(CLAIMED.keys())))

if __name__ == "__main__":
    main()
