#!/usr/bin/env python3
"""Regenerates /verif/MANIFEST.json from the table below (kept in one place so it stays valid)."""
import json, sys
ALL = ["C%02d" % i for i in range(1, 21)]
PENDING = "check under construction in this session; will be claimed once it runs quietly on the unchanged tree"
# id -> (level, technique, level text, level note, design ref)
HIST = "stateful property-based testing (proptest): generated operation histories executed on the real contracts in cw-multi-test, "
TB = "cw-multi-test 0.13.4 simulates the chain; reference arithmetic in Uint256; generated histories are a sample, not an enumeration"
CLAIMED = {
 "C01": ("exploration", "stateful property-based testing (proptest): generated swap histories against the real vAMM entry points, invariant oracle over the history in 256-bit arithmetic",
         "generated reserve pairs and swap_input/swap_output histories (incl. return-to-earlier-position swaps) are executed through the vAMM's instantiate/execute/query; scaled product monotonicity, base+net-position conservation and the return clause are recomputed independently after every accepted swap; owner actions and funding settlements between swaps must leave the curve state untouched",
         "mock dependencies stand in for the chain; return clause asserted only while base reserve >= 1 unit (see DESIGN C01)", "DESIGN.md §3 C01"),
 "C02": ("exploration", HIST + "invariant oracle after every transaction",
         "after every transaction of generated multi-trader histories (incl. directed whale trades, squeezes to the maintenance boundary, funding, liquidations) the sum of engine position sizes is compared with the vAMM's net position", TB, "DESIGN.md §3 C02"),
 "C03": ("exploration", HIST + "balance-conservation and recipient oracle over all known accounts",
         "balances of every known account are read around every transaction (cw20 and native collateral): total conserved, only sender/engine/fund/fee pool may change, liquidated trader unchanged", TB, "DESIGN.md §3 C03"),
 "C04": ("exploration", HIST + "reference-model oracle (exact equity) on every close",
         "for every successful close - by ClosePosition or by an order on the opposite side - the payout is recomputed as margin + realised PnL - funding owed (funding from a history model) and compared with the dispatched transfers; closes with negative equity must be refused; the open notional is checked as the cost basis after every increase / reduce / partial close; fund outflow is bounded by the recorded bad debt", TB, "DESIGN.md §3 C04"),
 "C05": ("exploration", HIST + "reference-model oracle (margin ratio, free collateral, margin bookkeeping)",
         "post-open margin ratio (engine answer and independent recomputation) >= maintenance, leverage bounds incl. exact boundary values, withdraw/deposit bookkeeping to the raw unit", TB, "DESIGN.md §3 C05"),
 "C06": ("exploration", HIST + "reference-model oracle (liquidation ratio with spot/TWAP/oracle choice, payout split)",
         "every successful liquidation is compared with an independently recomputed pre-state margin ratio (once with the vAMM's TWAP answer, once with the 15-minute TWAP recomputed from the harness's own record of block-final reserves) and exact payout split; histories are steered to the maintenance boundary by bisection, incl. moves younger than the TWAP window", TB, "DESIGN.md §3 C06"),
 "C07": ("exploration", HIST + "one-step liveness oracle with explicitly evaluated preconditions (incl. the liquidation ratio with the 15-minute TWAP recomputed from a harness-side record of block-final reserves)",
         "whenever the stated preconditions hold in the pre-state a Liquidate by a generated caller must succeed; mock and real price feed flavours, limits that any execution satisfies, prepaid-bad-debt equality, extreme prices; nine genuine defects found through this check (F1, F2, F3, F3c, F17, F21, F24, F25 and one shared with C16) were all repaired, nothing is excluded from judgement any more", TB + "; the fund-size precondition is a conservative sufficient bound", "DESIGN.md §3 C07"),
 "C08": ("fault_enumeration", "fault injection inside generated histories: every sub-message of every generated engine transaction is failed once (exhaustive per transaction), full raw storage dump compared",
         "within each generated transaction every node of the message tree is faulted once and the complete key/value dump of the chain store must equal the pre-state; pre-states and operations are sampled by proptest", "crash points = sub-message boundaries of cw-multi-test; panics count as failed transactions", "DESIGN.md §3 C08"),
 "C10": ("exploration", HIST + "non-interference oracle on all traders' positions + query battery with dump comparison",
         "positions of all traders are compared field by field around every transaction; all query variants are issued periodically and must not change the dump", TB, "DESIGN.md §3 C10"),
 "C11": ("exploration", HIST + "reference-model oracle (premium fraction, schedule, transfers, per-position charge)",
         "every successful settlement is recomputed from TWAP answers read in the pre-state; per-position funding charges on owner trades and reversals are recomputed exactly", TB, "DESIGN.md §3 C11"),
 "C12": ("exploration", HIST + "reference-model oracle on dispatched fee transfers",
         "fee transfers into fund and fee pool are taken from the instrumented token/bank and compared with floor(n*ratio/D) resp. the vAMM's CalcFee answer", TB, "DESIGN.md §3 C12"),
 "C09": ("exploration", "generated states + exhaustive role matrix per state (every privileged message variant x every sender kind), role-transfer histories, full storage dump comparison",
         "in every generated deployment state the complete matrix of 26 privileged messages x 9+ senders is executed from one snapshot: non-holders must be refused with the dump unchanged, holders must succeed where only authorisation can fail; repeated after each generated role transfer with holders tracked by the harness; preludes re-point a vAMM's engine / fund setting, whose role holders are then what its owner configured", TB + "; matrix enumerated per state, states and transfer histories sampled", "DESIGN.md §3 C09 + Appendix A"),
 "C13": ("exploration", "differential testing (proptest): twin native / cw20 deployments driven in lock-step, native calls attach what the cw20 twin pulled",
         "the same generated history is applied to twin deployments; outcome, positions, vAMM and engine state and all balance deltas must agree after every operation; fees-from-vault probed by a what-if close with nothing attached; withdrawn cw20 allowances for operations that pull nothing; F6 and F7 repaired, nothing excluded", TB, "DESIGN.md §3 C13"),
 "C14": ("exploration", HIST + "what-if twins (unpaused copy of the same state), blocked-operation table, registry invariants, shutdown post-condition",
         "pause / closed / unregistered tables are evaluated on generated histories with registry and status toggles; Liquidate/PayFunding while paused are compared with an unpaused twin of the same pre-state; shutdown must leave every registered vAMM closed", TB, "DESIGN.md §3 C14"),
 "C15": ("exploration", HIST + "price-band oracle against a harness-recorded end-of-previous-block reference price",
         "the reference price of every block is recorded by the harness; opens must end inside the band and are refused when already outside, whole closes must stay inside, partial closes must close exactly the configured fraction; whale trades are sized from the reserves to land around the band edge", TB, "DESIGN.md §3 C15"),
 "C16": ("exploration", HIST + "harness-tracked per-block action sets + what-if twin one block later for bystanders",
         "restricted traders must be refused (state unchanged); bystanders and next-block traders are compared with a twin of the same state one block height later", TB + "; deployments without fluctuation limit so only the restriction depends on height", "DESIGN.md §3 C16"),
 "C17": ("exploration", "stateful property-based testing (proptest): vAMM swap histories with quote-vs-execution and limit twins; engine histories with what-if limit experiments",
         "quotes are compared with executions at every generated state, limits at executed-1/executed/executed+1 decide accept/refuse exactly; at engine level every open/increase/reduce/whole close and every whole-position liquidation is replayed from a snapshot with the limit at, one unit beside and far from the executed amount", "mock dependencies (vAMM level), cw-multi-test (engine level)", "DESIGN.md §3 C17"),
 "C18": ("exploration", "property-based testing (proptest): generated block schedules / round sequences vs a reference time-weighted mean and min/max bounds",
         "vAMM TWAP answers are compared with bounds and an independent time-weighted mean over harness-recorded block-final prices; the real price feed's TWAP / latest / n-rounds-back answers are compared with the submitted rounds", "mock dependencies; erroring queries are counted, not judged", "DESIGN.md §3 C18"),
 "C20": ("exploration", HIST + "cap / bound invariants after every step, what-if twin without caps for whitelisted traders",
         "after every generated config update, whitelist edit, registry change and trade: caps hold for non-whitelisted position-increasing trades, whitelisted traders are not blocked by caps (twin with caps removed), all stored ratios and the TWAP interval stay in range, registered vAMMs share the engine's decimals (also for a fund set up before its engine: what-if deployment-order experiment per history)", TB, "DESIGN.md §3 C20"),
 "C19": ("exploration", "property-based testing (proptest): generated operand pairs vs exact 256-bit reference arithmetic",
         "every public operation of Integer is compared with exact sign-magnitude big-integer arithmetic on generated operand pairs biased to zero, equal magnitudes and the 128-bit boundary; the space (2^258 pairs) cannot be enumerated, so this is search, not proof",
         "trusts cosmwasm_std::Uint256 arithmetic used by the reference; values are interpreted as (-1)^negative * value", "DESIGN.md §3 C19"),
}
NOT_APPLICABLE = {}

def main():
    checks = []
    for pid in ALL:
        if pid not in CLAIMED:
            continue
        level, tech, text, note, ref = CLAIMED[pid]
        checks.append({
            "property_id": pid,
            "quick_cmd": "bin/check %s quick" % pid,
            "thorough_cmd": "bin/check %s thorough" % pid,
            "evidence_file": "/verif/evidence/%s.json" % pid,
            "replay_cmd_template": "bin/check %s replay {path}" % pid,
            "engine": "pverif",
            "level_claimed": {"category": level, "text": text, "design_ref": ref},
            "level_note": note,
            "technique": tech,
        })
    na = []
    for pid in ALL:
        if pid in CLAIMED:
            continue
        na.append({"property_id": pid, "reason": NOT_APPLICABLE.get(pid, PENDING)})
    m = {
        "version": 1,
        "setup_cmd": "cd /verif/harness && CARGO_NET_OFFLINE=true cargo build --release --offline",
        "hooks": {
            "guard": "margined_protocol_perpetuals_verif",
            "enable": "none needed: all instrumentation (message-tree counter, fault plan, transfer log) lives in the harness as cw-multi-test Contract/Bank wrappers; the guard name is reserved and unused",
            "baseline_off_cmd": "cd /repo && cargo test --workspace --no-fail-fast --offline",
            "source_commits": [],
            "add_only": True,
        },
        "engines": [
            {"name": "pverif", "path": "/verif/harness", "serves_properties": sorted(CLAIMED.keys()),
             "kind_free_text": "Rust harness: proptest-driven generated cases / operation histories executed against the real contract entry points inside cw-multi-test, with explicit reference oracles, shrinking and JSON replay files"},
        ],
        "checks": checks,
        "not_applicable": na,
        "notes": "bin/check <id> quick|thorough|replay <file>. Exit 0 held / 1 VIOLATION / 2 inconclusive. Known findings: /verif/known_findings.json.",
    }
    json.dump(m, open("/verif/MANIFEST.json", "w"), indent=1)
    print("claimed:", ",".join(sorted(CLAIMED.keys())))

if __name__ == "__main__":
    main()
