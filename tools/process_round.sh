#!/bin/bash
# usage: process_round.sh <suffix e.g. r6> <ids...>  -- for each finished author worktree /tmp/mut/<id><suffix>: verify a and b
# (tools/verify_mutant.sh), then try each against the property's own quick check on the private copy /tmp/scr
# (regression seeds of seeded changes off). One line per change is appended to /tmp/mut/results_<suffix>.txt
SUF=$1; shift
mkdir -p /tmp/mut
for id in "$@"; do
  WT=/tmp/mut/$id$SUF
  for m in a b; do
    [ -f $WT/out/$m/patch.diff ] || { echo "$id$SUF-$m MISSING" >> /tmp/mut/results_$SUF.txt; continue; }
    ver=$(/verif/tools/verify_mutant.sh $WT $m 2>&1 | tail -1)
    tri=$(PVERIF_SKIP_SEEDED=1 /verif/tools/try_mutant_scratch.sh /tmp/scr $WT/out/$m/patch.diff 0 $id 2>&1 | tail -1)
    echo "$id-$SUF$m | $ver | $tri" >> /tmp/mut/results_$SUF.txt
  done
done
