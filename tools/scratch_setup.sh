#!/bin/bash
# usage: scratch_setup.sh <dir>  -- private copy of /repo + harness (+ replays, known findings) for mutant trials
S=${1:-/tmp/scr}
mkdir -p $S
# no -t: a file whose content is unchanged keeps its (newer) mtime, a changed one gets the current time; restoring old
# mtimes would make cargo believe a crate built from a patched file is still fresh
rsync -rlpgoD --checksum --delete --exclude target --exclude .git /repo/ $S/repo/
find $S/repo/contracts $S/repo/packages -name '*.rs' -exec touch {} + 2>/dev/null
rsync -a --delete --exclude target /verif/harness/ $S/harness/
rsync -a --delete --exclude _found /verif/replays/ $S/replays/
cp /verif/known_findings.json $S/
sed -i "s#/repo/#$S/repo/#g" $S/harness/Cargo.toml
mkdir -p $S/evidence
cd $S/repo && git init -q 2>/dev/null; git add -A >/dev/null 2>&1; git -c user.email=a@b -c user.name=x commit -qm base >/dev/null 2>&1
cd $S/harness && CARGO_NET_OFFLINE=true cargo build --release --offline 2>&1 | tail -1
