#!/bin/bash
# usage: tools/run_all.sh [seed] [ids...]   -- runs quick checks, prints one line per check
SEED=${1:-0}; shift
IDS="$@"
[ -z "$IDS" ] && IDS=$(python3 -c "import json;print(' '.join(c['property_id'] for c in json.load(open('/verif/MANIFEST.json'))['checks']))")
cd /verif
for id in $IDS; do
  s=$(date +%s)
  out=$(VERIF_SEED=$SEED bin/check $id quick 2>/dev/null); rc=$?
  e=$(date +%s)
  echo "$id seed=$SEED rc=$rc $((e-s))s $(echo "$out" | grep -c '^KNOWN-FINDING') known; $(echo "$out" | grep -E '^VIOLATION|HARNESS-ERROR|INCONCLUSIVE' | head -2 | tr '\n' ' ')"
done
