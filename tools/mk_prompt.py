#!/usr/bin/env python3
"""usage: mk_prompt.py <Cnn> <suffix>  -- writes /tmp/mut/prompt_<Cnn><suffix>.txt for a mutation author working in
/tmp/mut/<Cnn><suffix>. The author sees the property text, the titles of changes other authors already delivered for it
(so that it looks elsewhere) and the task; nothing about the checks."""
import glob, json, os, sys

pid, suf = sys.argv[1], sys.argv[2]
wt = f"/tmp/mut/{pid}{suf}"
props = {json.loads(l)["id"]: json.loads(l) for l in open("/verif/properties.jsonl")}
p = props[pid]
text = f"{pid} — {p['title']}\n\nStatement: {p['statement']}\n"
for k in ("quantifier", "quantified_over", "domain"):
    if p.get(k):
        text += f"\nQuantified over: {p[k]}\n"
        break
prev = []
for d in sorted(glob.glob(f"/verif/seeded/{pid}-*/meta.json")):
    m = json.load(open(d))
    prev.append(f"  * {m.get('title','?')} — {str(m.get('what',''))[:220]}")
if prev:
    text += (
        "\nOther authors have ALREADY submitted the following changes for this property; yours must use DIFFERENT mechanisms, "
        "different code sites where possible, and different trigger conditions (do not resubmit variations of these):\n" + "\n".join(prev) + "\n"
        "Aim for changes that are harder to notice than those. Ideas for where to look (pick what fits this property): a path taken only for one "
        "collateral type (native coin vs cw20) or one token precision (the engine supports any `decimals`, the fixtures use 9 and 6); only the second or "
        "third vAMM of a deployment; only after an administrative change between two operations (config update, ownership / role change, "
        "re-registration, re-opening a market, whitelist edit); only for the second occurrence of an event in a block or after a block boundary; only "
        "when an inner message fails at a particular point and the transaction rolls back (or should); only at an exact boundary value (ratio exactly "
        "equal to a threshold, amount exactly equal to a balance, size exactly zero, limit exactly met); only for short positions, or only when a "
        "position's sign flips; only for bad-debt / insurance-fund-shortfall situations; a value read before instead of after an update (stale read) on a "
        "rarely taken path; two code sites that must agree (query vs execution, quote vs settle, store vs remove) drifting apart by one unit or one case; "
        "state that lives across transactions (a counter, a list that grows, a stamp) and only goes wrong after many operations or after wrapping / pruning; "
        "an interaction of three features (e.g. funding + partial close + a fluctuation limit, or caps + whitelist + reversal); the repository's own price feed "
        "(margined_pricefeed) instead of the mock; a deployment with two or three vAMMs where state of one leaks into another; values above 2^64 or tiny "
        "dust values; an operation repeated twice in the same block; the order of two administrative operations.\n"
    )
tmpl = open("/verif/tools/PROMPT.tmpl").read()
out = tmpl.replace("{WT}", wt).replace("{PROP}", text).replace("{ID}", pid)
os.makedirs("/tmp/mut", exist_ok=True)
open(f"/tmp/mut/prompt_{pid}{suf}.txt", "w").write(out)
print(f"/tmp/mut/prompt_{pid}{suf}.txt")
