#!/usr/bin/env python3
"""usage: round_table.py <rN> [results file]  -- markdown rows for DESIGN.md §6 from seeded/<id>-rN?/meta.json, the first-trial
results file of process_round.sh and seeded/CONFIRM.txt"""
import glob, json, re, sys
rn = sys.argv[1]
first = {}
if len(sys.argv) > 2:
    for l in open(sys.argv[2]):
        p = [x.strip() for x in l.split('|')]
        if len(p) >= 3:
            first[p[0]] = p[2]
conf = {}
for l in open('/verif/seeded/CONFIRM.txt'):
    p = l.split()
    if len(p) >= 4 and p[0].startswith('C'):
        conf[p[0]] = (p[2], p[4] if len(p) > 4 else '')
for d in sorted(glob.glob(f'/verif/seeded/C*-{rn}[ab]')):
    name = d.split('/')[-1]
    m = json.load(open(d + '/meta.json'))
    f = first.get(name, '')
    caught_first = ' rc=1' in f
    g, clause = conf.get(name, ('?', ''))
    note = m.get('round_note', '')
    if caught_first:
        res = f"caught by {name[:3]} quick, seed 0 ({clause})"
    else:
        res = f"MISSED at first; {note or 'caught after the extensions listed below'} ({clause})"
    print(f"| {name} | {m.get('title','?')} | {res} |")
