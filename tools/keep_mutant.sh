#!/bin/bash
# usage: keep_mutant.sh <worktree> <a|b> <name> <verify-line> <caught-by-line>
WT=$1; M=$2; NAME=$3; VER="$4"; CAUGHT="$5"
D=/verif/seeded/$NAME; mkdir -p $D
cp $WT/out/$M/patch.diff $D/patch.diff; cp $WT/out/$M/demo.diff $D/demo.diff
python3 - "$WT/out/$M/meta.json" "$D/meta.json" "$VER" "$CAUGHT" <<'PY'
import json,sys
m=json.load(open(sys.argv[1]))
m['confirmed_by_me']=sys.argv[3]
m['what_i_ran']="tools/verify_mutant.sh (demo passes without patch, fails with it, 410 tests pass with patch) in a scratch worktree; then tools/try_mutant.sh: git -C /repo apply patch.diff; bin/check <id> quick; git -C /repo checkout -- ."
m['checks']=sys.argv[4]
json.dump(m,open(sys.argv[2],'w'),indent=1)
PY
echo kept $D
