#!/bin/bash
# usage: confirm_all.sh <scratch dir> [seed] [names...]
# For every kept seeded change (or the named ones): on a private copy of /repo + harness
#   gen  = does the property's own quick check report a VIOLATION with the regression seeds of seeded changes switched off
#          (PVERIF_SKIP_SEEDED=1: only the generators and the defect witnesses count)?
#   seed = does the committed regression seed replays/<id>/seeded-<name>.json still fail under the change? (- = none committed)
# Writes /verif/seeded/CONFIRM.txt. A row "gen=0" is a miss to look at; "seed=0" means the seed should be re-harvested.
S=${1:-/tmp/scr}; SEED=${2:-0}; shift; shift
NAMES="$@"
[ -z "$NAMES" ] && NAMES=$(ls -d /verif/seeded/C[0-9]* | xargs -n1 basename)
/verif/tools/scratch_setup.sh $S >/dev/null 2>&1
OUT=/verif/seeded/CONFIRM.txt
if [ $# -eq 0 ]; then
  echo "# seeded change | own check | gen (quick, seed $SEED, regression seeds off) | seed (committed regression seed fails under the change) | first clause" > $OUT
  echo "# $(date -u +%FT%TZ) harness $(git -C /verif rev-parse --short HEAD) repo $(git -C /repo rev-parse --short HEAD)" >> $OUT
fi
for n in $NAMES; do
  id=${n%%-*}
  P=/verif/seeded/$n/patch.diff
  cd $S/repo && git checkout -q -- . && git apply "$P" 2>/dev/null || { echo "$n $id gen=? seed=? patch-does-not-apply" >> $OUT; cd $S/repo; git checkout -q -- .; continue; }
  cd $S/harness && CARGO_NET_OFFLINE=true cargo build --release --offline >/dev/null 2>&1 || { echo "$n $id gen=? seed=? build-failed" >> $OUT; cd $S/repo; git checkout -q -- .; continue; }
  out=$(PVERIF_SKIP_SEEDED=1 PVERIF_ROOT=$S PVERIF_THREADS=${PVERIF_THREADS:-16} VERIF_SEED=$SEED timeout 900 $S/harness/target/release/pverif check $id --tier quick 2>/dev/null); rc=$?
  clause=$(echo "$out" | grep -E '^  clause=' | head -1 | sed 's/^  clause=\([a-z_0-9]*\).*/\1/')
  gen=0; [ $rc -eq 1 ] && gen=1; [ $rc -ge 2 ] && gen="rc$rc"
  sd="-"
  f=/verif/replays/$id/seeded-$n.json
  if [ -f $f ]; then
    PVERIF_ROOT=$S timeout 300 $S/harness/target/release/pverif replay $id $f >/dev/null 2>&1; r2=$?
    sd=0; [ $r2 -eq 1 ] && sd=1
  fi
  echo "$n $id gen=$gen seed=$sd $clause" >> $OUT
  cd $S/repo && git checkout -q -- .
done
echo CONFIRM-DONE >> $OUT
