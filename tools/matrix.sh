#!/bin/bash
# usage: matrix.sh <scratch dir> [scale]  -- every seeded change against every check (reduced budget), on a private copy
S=${1:-/tmp/scr}; SCALE=${2:-0.25}
/verif/tools/scratch_setup.sh $S >/dev/null 2>&1
OUT=/verif/seeded/MATRIX.txt
echo "# seeded change x check, quick tier at budget scale $SCALE, seed 0, private copy of /repo + harness ($(date -u +%FT%TZ), harness $(git -C /verif rev-parse --short HEAD))" > $OUT
echo "# 1 = VIOLATION reported, 0 = quiet, 2 = inconclusive" >> $OUT
IDS="C01 C02 C03 C04 C05 C06 C07 C08 C09 C10 C11 C12 C13 C14 C15 C16 C17 C18 C19 C20"
echo "change $IDS" >> $OUT
for d in /verif/seeded/C*; do
  n=$(basename $d)
  row="$n"
  res=$(PVERIF_CASES_SCALE=$SCALE PVERIF_THREADS=${PVERIF_THREADS:-8} /verif/tools/try_mutant_scratch.sh $S $d/patch.diff 0 $IDS)
  for id in $IDS; do
    rc=$(echo "$res" | grep "^$id rc=" | sed 's/.*rc=\([0-9]*\).*/\1/')
    row="$row ${rc:-?}"
  done
  echo "$row" >> $OUT
done
