#!/bin/bash
# usage: try_mutant.sh <patch.diff> <seed> <ids...>  -- applies the patch to /repo, runs the quick checks, reverts
P=$1; SEED=$2; shift; shift
cd /repo && git diff --quiet || { echo "/repo is dirty"; exit 2; }
git apply "$P" || { echo "patch does not apply"; exit 2; }
for id in "$@"; do
  out=$(cd /verif && VERIF_SEED=$SEED bin/check $id quick 2>/dev/null); rc=$?
  echo "$id rc=$rc $(echo "$out" | grep -E '^  clause=' | head -1 | cut -c1-300)"
done
git -C /repo checkout -- .
