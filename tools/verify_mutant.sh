#!/bin/bash
# usage: verify_mutant.sh <worktree> <a|b>   -- confirms: demo passes w/o patch, fails with patch, suite passes with patch
WT=$1; M=$2; O=$WT/out/$M
cd $WT || exit 2
git checkout -q -- . ; git clean -qfd -e out -e target
DEMO=$(python3 -c "import json;print(json.load(open('$O/meta.json'))['demo_test'])")
git apply $O/demo.diff || { echo "demo.diff does not apply"; exit 2; }
( eval "$DEMO" ) >/tmp/vm_$$_demo0.log 2>&1; r0=$?
git apply $O/patch.diff || { echo "patch.diff does not apply"; exit 2; }
( eval "$DEMO" ) >/tmp/vm_$$_demo1.log 2>&1; r1=$?
# suite with patch only
git checkout -q -- . ; git clean -qfd -e out -e target
git apply $O/patch.diff
cargo test --workspace --no-fail-fast --offline >/tmp/vm_$$_suite.log 2>&1; rs=$?
passed=$(grep -E "^test result" /tmp/vm_$$_suite.log | awk '{s+=$4} END {print s}')
failed=$(grep -E "^test result" /tmp/vm_$$_suite.log | awk '{s+=$6} END {print s}')
git checkout -q -- . ; git clean -qfd -e out -e target
rm -f /tmp/vm_$$_*.log
echo "demo_without_patch_rc=$r0 demo_with_patch_rc=$r1 suite_rc=$rs passed=$passed failed=$failed"
