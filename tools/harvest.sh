#!/bin/bash
# usage: harvest.sh <scratch dir> <seeded name> <check id>
# applies the seeded change on the private copy, runs the check, and saves the shrunk failing case as a regression
# replay /verif/replays/<id>/seeded-<name>.json (it must hold on the unchanged tree; verified afterwards by the caller)
S=$1; NAME=$2; ID=$3
rm -rf $S/replays/_found
out=$(/verif/tools/try_mutant_scratch.sh $S /verif/seeded/$NAME/patch.diff 0 $ID)
echo "$out"
f=$(ls $S/replays/_found/$ID-*.json 2>/dev/null | head -1)
if [ -n "$f" ]; then
  mkdir -p /verif/replays/$ID
  python3 - "$f" "/verif/replays/$ID/seeded-$NAME.json" "$NAME" <<'PY'
import json,sys
j=json.load(open(sys.argv[1]))
j['found_by']='proptest on seeded change '+sys.argv[3]+' (regression seed: holds on the unchanged tree)'
json.dump(j,open(sys.argv[2],'w'),indent=1)
PY
  echo "saved replays/$ID/seeded-$NAME.json"
else
  echo "no replay produced"
fi
