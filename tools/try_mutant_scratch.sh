#!/bin/bash
# usage: try_mutant_scratch.sh <scratch dir> <patch.diff> <seed> <ids...>
S=$1; P=$2; SEED=$3; shift; shift; shift
cd $S/repo && git checkout -q -- . && git apply "$P" || { echo "patch does not apply"; exit 2; }
cd $S/harness && CARGO_NET_OFFLINE=true cargo build --release --offline >/dev/null 2>&1 || { echo "BUILD FAILED"; cd $S/repo; git checkout -q -- .; exit 2; }
for id in "$@"; do
  out=$(PVERIF_ROOT=$S PVERIF_THREADS=${PVERIF_THREADS:-16} VERIF_SEED=$SEED timeout 900 $S/harness/target/release/pverif check $id --tier quick 2>/dev/null); rc=$?
  echo "$id rc=$rc $(echo "$out" | grep -E '^  clause=' | head -1 | cut -c1-200)"
done
cd $S/repo && git checkout -q -- .
